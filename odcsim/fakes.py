"""In-process fakes for the peers of the code under test: S3 and the ``distributed``
coordination primitives (Variable, Lock, get_client).  Every method is a seam: it parks the
calling simulated thread *before* taking effect, and the effect itself is atomic.

Fidelity: the S3 fake enforces the documented service rules and nothing more; the
distributed fakes carry the constructor signatures of the installed distributed release
and are compared with a real in-process cluster by ``./check selftest-conformance``.
"""

from __future__ import annotations

from typing import Any, Dict, List, Optional, Tuple

from . import kernel as K
from .core import ServiceRejection


# --------------------------------------------------------------------------------------
# S3
# --------------------------------------------------------------------------------------
class _Body:
    def __init__(self, b: bytes):
        self._b = b

    def read(self) -> bytes:
        return self._b


class FakeS3:
    def __init__(self, min_part_size: int = 0):
        self.min_part_size = min_part_size
        self.uploads: Dict[str, Dict[str, Any]] = {}  # UploadId -> {bucket,key,kw,parts{n:bytes},state}
        self.objects: Dict[Tuple[str, str], bytes] = {}
        self.calls: List[Tuple] = []
        self.n = 0

    def _seam(self, what: str, *a: Any) -> None:
        K.seam(("s3", what, *a))

    def _who(self) -> Optional[str]:
        k = K.CURRENT
        return k.me() if k is not None else None

    def create_multipart_upload(self, Bucket: str, Key: str, **kw: Any) -> Dict[str, Any]:
        self._seam("create", Key)
        self.n += 1
        uid = f"U{self.n}"
        self.uploads[uid] = {"bucket": Bucket, "key": Key, "kw": dict(kw), "parts": {}, "state": "open"}
        self.calls.append(("create", self._who(), Bucket, Key, uid))
        return {"UploadId": uid, "Bucket": Bucket, "Key": Key}

    def _upload(self, Bucket: str, Key: str, UploadId: str) -> Dict[str, Any]:
        u = self.uploads.get(UploadId)
        if u is None or u["state"] != "open" or (u["bucket"], u["key"]) != (Bucket, Key):
            raise ServiceRejection(f"NoSuchUpload: {UploadId!r} for {Bucket}/{Key}")
        return u

    def upload_part(self, PartNumber: int, Body: Any, Bucket: str, Key: str, UploadId: str) -> Dict[str, Any]:
        self._seam("part", Key, PartNumber)
        u = self._upload(Bucket, Key, UploadId)
        if not isinstance(PartNumber, int) or not 1 <= PartNumber <= 10_000:
            raise ServiceRejection(f"InvalidArgument: PartNumber {PartNumber!r}")
        data = bytes(Body)
        u["parts"][PartNumber] = data  # re-upload of a part number replaces
        self.calls.append(("part", self._who(), Key, UploadId, PartNumber, len(data)))
        return {"ETag": self._etag(PartNumber, data)}

    @staticmethod
    def _etag(n: int, data: bytes) -> str:
        import hashlib

        return '"' + hashlib.md5(data).hexdigest()[:16] + f'-{n}"'

    def complete_multipart_upload(self, Bucket: str, Key: str, UploadId: str, MultipartUpload: Dict[str, Any]) -> Dict[str, Any]:
        self._seam("complete", Key)
        u = self._upload(Bucket, Key, UploadId)
        parts = MultipartUpload["Parts"]
        nums = [p["PartNumber"] for p in parts]
        if not parts:
            raise ServiceRejection("MalformedXML: no parts")
        if nums != sorted(nums) or len(set(nums)) != len(nums):
            raise ServiceRejection(f"InvalidPartOrder: {nums}")
        have = u["parts"]
        for p in parts:
            n = p["PartNumber"]
            if n not in have or p.get("ETag") != self._etag(n, have[n]):
                raise ServiceRejection(f"InvalidPart: {n}")
        for n in nums[:-1]:
            if len(have[n]) < self.min_part_size:
                raise ServiceRejection(f"EntityTooSmall: part {n} has {len(have[n])} bytes")
        self.objects[(Bucket, Key)] = b"".join(have[n] for n in nums)
        u["state"] = "completed"
        self.calls.append(("complete", self._who(), Key, UploadId, tuple(nums)))
        return {"ETag": '"final"', "Bucket": Bucket, "Key": Key}

    def abort_multipart_upload(self, Bucket: str, Key: str, UploadId: str) -> Dict[str, Any]:
        self._seam("abort", Key)
        u = self._upload(Bucket, Key, UploadId)
        u["state"] = "aborted"
        self.calls.append(("abort", self._who(), Key, UploadId))
        return {}

    def list_multipart_uploads(self, Bucket: str, Prefix: str = "") -> Dict[str, Any]:
        self._seam("list", Prefix)
        ups = [{"UploadId": uid, "Key": u["key"]} for uid, u in self.uploads.items() if u["state"] == "open" and u["bucket"] == Bucket and u["key"].startswith(Prefix)]
        return {"Uploads": ups} if ups else {}

    def get_object(self, Bucket: str, Key: str, **kw: Any) -> Dict[str, Any]:
        self._seam("get", Key)
        if (Bucket, Key) not in self.objects:
            raise ServiceRejection(f"NoSuchKey: {Key}")
        return {"Body": _Body(self.objects[(Bucket, Key)])}


# --------------------------------------------------------------------------------------
# distributed
# --------------------------------------------------------------------------------------
class PeerAttributeError(AttributeError, ServiceRejection):
    """What the installed distributed.Lock raises when it is handed something that is not a
    scheduler rpc (verified against a real in-process cluster); attributable to the caller."""


class FakeSchedulerRPC:
    """Stands for ``client.scheduler`` / a worker's scheduler rpc."""

    def semaphore_register(self, *a, **kw):  # presence of the attribute is what matters
        return None


class FakeClient:
    """Deliberately has no ``semaphore_register``: passing a client where the installed
    ``distributed.Lock`` expects ``scheduler_rpc`` fails at acquire, as it does for real."""

    status = "running"

    def __init__(self, cluster: "FakeCluster", name: str = "client"):
        self.cluster = cluster
        self.id = name
        self.scheduler = cluster.rpc


class _VarWaiter:
    def __init__(self, cluster: "FakeCluster", name: str):
        self.cluster, self.name = cluster, name

    def free_for(self, who: str) -> bool:
        return self.name in self.cluster.vars


class FakeCluster:
    def __init__(self) -> None:
        self.vars: Dict[str, Any] = {}
        self.locks: Dict[str, K.CoopLock] = {}
        self.rpc = FakeSchedulerRPC()
        self.client_of: Dict[str, Optional[FakeClient]] = {}  # simulated thread -> client (None: no client)
        self.default_client: Optional[FakeClient] = None
        self.events: List[Tuple] = []
        self.counters = {"var_get_timeout": 0, "var_get_wait_then_value": 0, "dlock_contended": 0, "var_set": 0, "var_delete": 0}
        # message-delay fault (C18 re-upload scenario): callable(name) -> bool deciding whether this delete travels as an
        # in-flight message; None: deletes take effect at once
        self.delete_in_flight: Optional[Any] = None
        self.in_flight: set = set()
        self.on_delivered: Optional[Any] = None

    def who(self) -> Optional[str]:
        k = K.CURRENT
        return k.me() if k is not None else None

    def current_client(self) -> Optional[FakeClient]:
        me = self.who()
        if me is not None and me in self.client_of:
            return self.client_of[me]
        # threads named "<worker>.<thread>" inherit the worker's client
        if me is not None and "." in me and me.split(".")[0] in self.client_of:
            return self.client_of[me.split(".")[0]]
        return self.default_client


CLUSTER: Optional[FakeCluster] = None


def fake_get_client(address=None, timeout=None, resolve_address=True):
    c = CLUSTER.current_client() if CLUSTER is not None else None
    if c is None:
        raise ValueError("No global client found and no address provided")
    return c


def _parse_timeout(t: Any) -> Optional[float]:
    if t is None:
        return None
    if isinstance(t, (int, float)):
        return float(t)
    from dask.utils import parse_timedelta

    return float(parse_timedelta(t))


class FakeVariable:
    def __init__(self, name=None, client=None):
        self._client = client
        self.name = name or "variable-anon"

    @property
    def client(self):
        if not self._client:
            try:
                self._client = fake_get_client()
            except ValueError:
                pass
        return self._client

    def _verify_running(self):
        if not self.client:
            raise RuntimeError(f"{type(self)} object not properly initialized.")

    def set(self, value, timeout="30 s", **kw):
        self._verify_running()
        cl = CLUSTER
        K.seam(("var.set", self.name))
        cl.vars[self.name] = value
        cl.counters["var_set"] += 1
        cl.events.append(("var.set", cl.who(), self.name, value))

    def get(self, timeout=None, **kw):
        self._verify_running()
        cl = CLUSTER
        timeout = _parse_timeout(timeout)
        K.seam(("var.get", self.name))
        if self.name in cl.vars:
            v = cl.vars[self.name]
            cl.events.append(("var.get", cl.who(), self.name, v))
            return v
        k = K.CURRENT
        me = k.me() if k is not None else None
        if me is None:
            raise TimeoutError()  # outside the simulation nobody can set it meanwhile
        rec = k.threads[me]
        rec.timed_out = False
        k.park(("var.wait", self.name), blocked_on=_VarWaiter(cl, self.name), deadline=None if timeout is None else k.now + timeout)
        if rec.timed_out or self.name not in cl.vars:
            rec.timed_out = False
            cl.counters["var_get_timeout"] += 1
            cl.events.append(("var.get.timeout", me, self.name))
            import asyncio

            raise asyncio.TimeoutError()
        cl.counters["var_get_wait_then_value"] += 1
        v = cl.vars[self.name]
        cl.events.append(("var.get", me, self.name, v))
        return v

    def delete(self):
        self._verify_running()
        cl = CLUSTER
        K.seam(("var.delete", self.name))
        cl.counters["var_delete"] += 1
        k = K.CURRENT
        if cl.delete_in_flight is not None and k is not None and k.me() is not None and cl.delete_in_flight(self.name):
            # the real delete() is fire-and-forget on the client's batched stream: the message is in flight
            # until the scheduler handles it - here a simulated thread of its own, so the run's Chooser
            # decides when that happens relative to everything else
            name, n = self.name, cl.counters["var_delete"]
            cl.events.append(("var.delete.sent", cl.who(), name))
            cl.in_flight.add(n)

            def deliver():
                K.seam(("net.deliver", "var.delete", name))
                cl.vars.pop(name, None)
                cl.in_flight.discard(n)
                cl.events.append(("var.delete.delivered", "net", name))
                if cl.on_delivered is not None:
                    cl.on_delivered(name)

            k.spawn(f"net.del{n}", deliver)
            return
        cl.vars.pop(self.name, None)
        cl.events.append(("var.delete", cl.who(), self.name))

    def __reduce__(self):
        return FakeVariable, (self.name,)


class FakeLock:
    """distributed.Lock(name=None, scheduler_rpc=None, loop=None) -- installed signature."""

    def __init__(self, name=None, scheduler_rpc=None, loop=None):
        self.name = name or "lock-anon"
        self._scheduler = scheduler_rpc
        self._loop = loop

    @property
    def scheduler(self):
        if self._scheduler is not None:
            return self._scheduler
        c = fake_get_client()  # ValueError when there is neither worker nor client
        return c.scheduler

    def acquire(self, blocking=True, timeout=None):
        cl = CLUSTER
        # registration with the scheduler goes through the rpc object: a Client passed
        # positionally has no such method (AttributeError, exactly as the real class)
        rpc = self.scheduler
        if not hasattr(rpc, "semaphore_register"):
            raise PeerAttributeError(f"{type(rpc).__name__.replace('Fake', '')!r} object has no attribute 'semaphore_register'")
        K.seam(("dlock.acquire", self.name))
        lk = cl.locks.setdefault(self.name, K.CoopLock(False, name=f"dlock:{self.name}"))
        before = lk.contended
        ok = lk.acquire(blocking)
        if lk.contended > before:
            cl.counters["dlock_contended"] += 1
        cl.events.append(("dlock.acquired", cl.who(), self.name))
        return ok

    def release(self):
        cl = CLUSTER
        K.seam(("dlock.release", self.name))
        cl.locks[self.name].release()
        cl.events.append(("dlock.released", cl.who(), self.name))
        return True  # as the installed distributed.Lock does

    def locked(self):
        lk = CLUSTER.locks.get(self.name)
        return bool(lk and lk.locked())

    def __enter__(self):
        self.acquire()
        return self

    def __exit__(self, *a):
        self.release()

    def __reduce__(self):
        return FakeLock, (self.name,)


_ORIG: Dict[str, Any] = {}


def install_distributed_fakes(cluster: FakeCluster) -> None:
    """Patch distributed.get_client / Variable / Lock (looked up at call time by the repo)."""
    global CLUSTER  # pylint: disable=global-statement
    import distributed

    if not _ORIG:
        _ORIG.update(get_client=distributed.get_client, Variable=distributed.Variable, Lock=distributed.Lock)
    CLUSTER = cluster
    distributed.get_client = fake_get_client
    distributed.Variable = FakeVariable
    distributed.Lock = FakeLock


def uninstall_distributed_fakes() -> None:
    global CLUSTER  # pylint: disable=global-statement
    import distributed

    CLUSTER = None
    for k, v in _ORIG.items():
        setattr(distributed, k, v)


class EndpointView:
    """The same fake service seen through another endpoint: buckets of different endpoints are
    different buckets, upload ids of one endpoint mean nothing on another."""

    def __init__(self, s3: FakeS3, endpoint: str):
        self._s3, self._ep = s3, endpoint

    def __getattr__(self, name: str) -> Any:
        f = getattr(self._s3, name)

        def call(*a: Any, **kw: Any) -> Any:
            if "Bucket" in kw:
                kw["Bucket"] = f"{self._ep}|{kw['Bucket']}"
            r = f(*a, **kw)
            if isinstance(r, dict) and "Bucket" in r:
                r = {**r, "Bucket": r["Bucket"].split("|", 1)[-1]}
            return r

        return call


_S3_ORIG: Dict[str, Any] = {}
S3: Optional[FakeS3] = None


def install_fake_s3(s3: FakeS3) -> None:
    global S3  # pylint: disable=global-statement
    from odc.geo.cog import _s3 as S

    if "s3_client" not in _S3_ORIG:
        _S3_ORIG["s3_client"] = S.MultiPartUpload.__dict__.get("s3_client")
    S3 = s3
    S.MultiPartUpload.s3_client = lambda self: S3 if not getattr(self, "endpoint_url", None) else EndpointView(S3, self.endpoint_url)  # type: ignore


def uninstall_fake_s3() -> None:
    global S3  # pylint: disable=global-statement
    from odc.geo.cog import _s3 as S

    S3 = None
    if _S3_ORIG.get("s3_client") is not None:
        S.MultiPartUpload.s3_client = _S3_ORIG["s3_client"]
