"""selftest-daskconf: the scheduler stub compared with dask's own local schedulers.

DaskSim replaces the dask scheduler in C05, C06 (layer B) and C13.  This self-test draws the
same workloads the checks draw and hands every graph to ``dask.local.get_sync`` and to
``dask.threaded.get`` (four real threads) instead - DaskSim takes no decision at all - and lets the
engines' unchanged oracles judge the outcome.  On a tree on which the property holds every such
run has to be clean (or a listed known finding): a violation here that the simulated schedules of
the same workload do not show would mean that the oracles lean on something DaskSim does and
dask does not (or the other way round), i.e. a misrepresentation of the real scheduler.  For every
workload the DaskSim run of the unmodified record is executed as well and the two verdicts are
compared.  Never part of a verdict; real threads are not replayable and are used nowhere else.
"""

from __future__ import annotations

import copy
import random
import sys
import time
from typing import Any, Dict, List

from . import core

N = {"C06": 150, "C13": 40, "C05": 40}


def _force(prop: str, rec: dict, real: str) -> dict:
    r = copy.deepcopy(rec)
    cfg = r["config"]
    dl = cfg["dask"] if isinstance(cfg.get("dask"), list) else [cfg.setdefault("dask", {})]
    for d in dl:
        d["real"] = real
        d["workers"] = 1  # no baton kernel: the threads are dask's
        d["stall"] = 0.0
    if prop == "C06":
        cfg["layer"] = "B"
    r["schedule"], r["faults"] = [], []
    return r


def main(argv: List[str]) -> int:
    import os
    import subprocess

    scale = float(argv[0]) if argv else 1.0
    if len(argv) < 2:
        # one fresh interpreter per engine: C05 runs fork a child per run, and a process that has
        # already run dask's thread pool (C13, C06) must not fork (the child inherits held locks)
        t0 = time.time()
        rc = 0
        for prop in ("C06", "C13", "C05"):
            r = subprocess.run([sys.executable, os.path.join(os.path.dirname(os.path.abspath(__file__)), "main.py"), "selftest-daskconf", str(scale), prop], capture_output=True, text=True, timeout=2400)
            lines = [ln for ln in r.stdout.splitlines() if ln.startswith("  ")]
            print("\n".join(lines))
            if r.returncode != 0:
                rc = 2
                if not lines:
                    print(r.stdout[-800:], r.stderr[-1500:])
        print("selftest-daskconf:", "OK" if not rc else "FAILED (workloads judged differently or not clean)", f"- DaskSim vs dask.local.get_sync vs dask.threaded.get, {time.time() - t0:.0f}s")
        return rc
    from . import bootstrap

    bootstrap.boot()
    findings = core.load_known_findings()
    bad = 0
    for prop in (argv[1],):
        engine = core.load_engine(prop)
        if hasattr(engine, "parent_init"):
            engine.parent_init("quick", {})
        if hasattr(engine, "worker_init"):
            engine.worker_init("quick", {})
        counts: Dict[str, int] = {"workloads": 0, "sim_clean": 0, "sync_clean": 0, "threads_clean": 0, "known": 0, "skipped": 0}
        i = 0
        want = max(3, int(N[prop] * scale))
        while counts["workloads"] < want and i < want * 40:
            seed = core.run_seed(777, prop, i)
            i += 1
            rec = engine.generate(random.Random(seed), "quick")
            cfg = rec["config"]
            if prop == "C06" and cfg.get("layer") != "B":
                continue
            if prop == "C05" and cfg.get("sink") == "s3-cluster":
                counts["skipped"] += 1  # the fake cluster's virtual clock needs the simulated scheduler
                continue
            counts["workloads"] += 1
            verdicts: Dict[str, Any] = {}
            for mode in ("sim", "sync", "threads"):
                r = rec if mode == "sim" else _force(prop, rec, mode)
                out = core.execute_generate(engine, copy.deepcopy(r), seed)
                vd = out.violation.as_dict() if out.violation is not None else None
                if vd is not None and core.match_known(prop, vd, findings) is not None:
                    counts["known"] += 1
                    verdicts[mode] = "known:" + core.match_known(prop, vd, findings)["id"]
                elif vd is None:
                    counts[f"{mode}_clean"] += 1
                    verdicts[mode] = "clean"
                else:
                    verdicts[mode] = f"{vd['oracle']} {vd['sig']}"
            if len(set(verdicts.values())) != 1 or any(not (v == "clean" or v.startswith("known:")) for v in verdicts.values()):
                bad += 1
                print(f"  DIFF {prop} index {i - 1} seed {seed}: {verdicts}")
        print(f"  {prop}: {counts}")
    return 0 if not bad else 2


if __name__ == "__main__":
    sys.exit(main(sys.argv[1:]))
