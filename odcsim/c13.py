"""C13 -- chunked reprojection equals whole-array reprojection.

System under simulation: real ``xr_reproject`` on a dask-backed DataArray
(_dask_rio_reproject, _do_chunked_reproject, GeoboxTiles.grid_intersect, BlockAssembler,
_rio_reproject) executed by DaskSim; reference: the same call on the numpy-backed array.
Oracles O13.1 - O13.5 (DESIGN.md section 5).  All masks / footprints are computed here with
affine, pyproj and numpy directly -- never through odc-geo.
"""

from __future__ import annotations

import copy
import random
from typing import Any, Dict, Iterable, List, Optional, Tuple

import numpy as np

from .core import Chooser, Digest, HarnessError, Outcome, Violation, draw_policy, exc_to_violation
from .dasksim import DaskSim
from .kernel import Deadlock, Kernel, activate

PROP = "C13"
RULE = (
    "each run draws a source raster (1-48 px per side, optional leading time or trailing band axis with regular or irregular chunks, dtype incl. bool "
    "with nodata, native or big-endian, nodata setting, distinct non-fill pixel values), "
    "a destination grid (same CRS: exact dyadic grids with integer/sub-pixel shifts, scales, mirroring; inexact and rotated grids; cross CRS "
    "among 4326/3857/32633/3577-like/3035; contained / partial / touching / disjoint; 6 % whole-world, pole-containing, pole-centred and domain-edge pairs), source and destination chunk shapes (1-pixel and "
    "non-dividing included) and a DaskSim configuration (policy, K workers, transport, recompute, fusion); the graph is executed twice under "
    "different schedules. Non-trivial: more than one task of the reprojection layer ran. Distinct: (grid pair, dtype, nodata, chunking, task order)."
)
DISTINCT_MEASURE = "hash of (workload, DaskSim task start order of both executions, fired faults)"
COMPONENTS_REAL = [
    "odc.geo._xr_interop.xr_reproject/_xr_reproject_da, odc.geo._dask (_dask_rio_reproject, _do_chunked_reproject, resolve_fill_value)",
    "odc.geo.geobox (GeoBox, GeoboxTiles.grid_intersect/clip), odc.geo._blocks.BlockAssembler, odc.geo.warp (_rio_reproject, rio_reproject)",
    "dask.array graph construction/optimisation, GDAL warp (rasterio), pyproj",
]
COMPONENTS_STUB = ["dask scheduler (DaskSim)", "uuid4 in odc.geo._dask (seeded)"]
HAZARD_PROBES = ['geobox_sanity_mismatch', 'interior_fill_differs_non_nearest', 'recompute_kept_second']
ASSUMPTIONS = [
    "O13.1 (exact equality) applies to same-CRS nearest-neighbour runs; on inexact grids destination centres within 1e-6 px of a source pixel edge are left out (counted)",
    "O13.2/O13.5 use a safety margin of 3 source + 3 destination pixels around the projected footprint, computed with affine/pyproj/numpy",
    "source pixel values never equal the fill value, except the planted pixels equal to the source nodata (35 % of runs with a source nodata)",
    "whole-world, polar and domain-edge pairs come from twelve fixed templates (GLOBAL_TEMPLATES) with drawn chunkings (D13g, D13h, D13j lived there; repaired)",
    "hazard probe geobox_sanity_mismatch (recovered GeoBox of the chunked result vs the requested one, approximate, never deciding) fires on one-row / one-pixel destinations with a shear of 1e-10 (sliver placements): such a shear cannot be recovered from coordinate labels - C09's business, not this property's",
    "cross-CRS rasters are local (at most ~150 km across): on continental extents the per-chunk source-tile lookup approximates curved outlines too coarsely (C12's dependency completeness, not claimed) - see DESIGN 7.3",
]

CRS_POOL = {
    # epsg: (x0, y0, pixel size) of a spot well inside the valid area (central Europe / for 3577 Australia is avoided: pairs stay in Europe)
    4326: (14.0, 50.0, 0.01),
    3857: (1560000.0, 6450000.0, 1000.0),
    32633: (450000.0, 5540000.0, 1000.0),
    3035: (4600000.0, 3000000.0, 1000.0),
    25833: (450000.0, 5540000.0, 1000.0),
}


def _seeded_uuid(seed: int):
    import uuid

    r = random.Random(seed)

    def uuid4():
        return uuid.UUID(int=r.getrandbits(128), version=4)

    return uuid4


# --------------------------------------------------------------------------------------
# generation
# --------------------------------------------------------------------------------------
def _draw_chunk(rng: random.Random, n: int) -> int:
    c = rng.choice([1, 2, 3, 5, 7, 16, n, n])
    return max(1, min(c, n)) if c != 1 or n <= 10 else rng.choice([2, 3, 5])


# whole-world, pole-containing and pole-centred grids (explicit source and destination)
GLOBAL_TEMPLATES = {
    "polar-src": ({"crs": 3413, "aff": [5000.0, 0.0, -20000.0, 0.0, -5000.0, 20000.0], "shape": [8, 8]}, {"crs": 4326, "aff": [10.0, 0.0, -180.0, 0.0, -0.04, 90.0], "shape": [10, 36]}),
    "global-src-3031": ({"crs": 4326, "aff": [4.0, 0.0, -180.0, 0.0, -4.0, 90.0], "shape": [45, 90]}, {"crs": 3031, "aff": [200000.0, 0.0, -3000000.0, 0.0, -200000.0, 3000000.0], "shape": [30, 30]}),
    "global-src-3413": ({"crs": 4326, "aff": [4.0, 0.0, -180.0, 0.0, -4.0, 90.0], "shape": [45, 90]}, {"crs": 3413, "aff": [200000.0, 0.0, -3000000.0, 0.0, -200000.0, 3000000.0], "shape": [30, 30]}),
    "world-dst": ({"crs": 32633, "aff": [10.0, 0.0, 500000.0, 0.0, -10.0, 6000000.0], "shape": [4, 4]}, {"crs": 4326, "aff": [4.0, 0.0, -180.0, 0.0, -4.0, 90.0], "shape": [45, 90]}),
    "world-dst-lat84": ({"crs": 32633, "aff": [10.0, 0.0, 500000.0, 0.0, -10.0, 6000000.0], "shape": [4, 4]}, {"crs": 4326, "aff": [4.0, 0.0, -180.0, 0.0, -4.0, 84.0], "shape": [42, 90]}),
    # footprints that touch the edge of a projection's domain (round 7): web-mercator tiles of the first / last column of
    # the XYZ scheme against lon/lat boxes, whole-world grids in both systems, a raster two pixels from the antimeridian
    "webmerc-east-tile-src": ({"crs": 3857, "aff": [156543.03392804097, 0.0, 15028131.257091932, 0.0, -156543.03392804097, 5009377.085697312], "shape": [32, 32]}, {"crs": 4326, "aff": [1.40625, 0.0, 135.0, 0.0, -1.28125, 41.0], "shape": [32, 32]}),
    "webmerc-east-tile-dst": ({"crs": 4326, "aff": [1.40625, 0.0, 135.0, 0.0, -1.28125, 41.0], "shape": [32, 32]}, {"crs": 3857, "aff": [156543.03392804097, 0.0, 15028131.257091932, 0.0, -156543.03392804097, 5009377.085697312], "shape": [32, 32]}),
    "webmerc-west-tile-src": ({"crs": 3857, "aff": [156543.03392804097, 0.0, -20037508.342789244, 0.0, -156543.03392804097, 5009377.085697312], "shape": [32, 32]}, {"crs": 4326, "aff": [1.40625, 0.0, -180.0, 0.0, -1.28125, 41.0], "shape": [32, 32]}),
    "world-lonlat-to-webmerc": ({"crs": 4326, "aff": [4.0, 0.0, -180.0, 0.0, -4.0, 90.0], "shape": [45, 90]}, {"crs": 3857, "aff": [626172.1357121639, 0.0, -20037508.342789244, 0.0, -626172.1357121639, 20037508.342789244], "shape": [64, 64]}),
    "world-webmerc-to-lonlat": ({"crs": 3857, "aff": [626172.1357121639, 0.0, -20037508.342789244, 0.0, -626172.1357121639, 20037508.342789244], "shape": [64, 64]}, {"crs": 4326, "aff": [4.0, 0.0, -180.0, 0.0, -4.0, 90.0], "shape": [45, 90]}),
    "antimeridian-src": ({"crs": 3857, "aff": [100000.0, 0.0, 17300000.0, 0.0, -100000.0, 5000000.0], "shape": [27, 27]}, {"crs": 4326, "aff": [0.25, 0.0, 168.0, 0.0, -0.25, 42.0], "shape": [48, 48]}),
    "hemisphere-dst": ({"crs": 32633, "aff": [10.0, 0.0, 500000.0, 0.0, -10.0, 6000000.0], "shape": [4, 4]}, {"crs": 4326, "aff": [2.0, 0.0, -30.0, 0.0, -2.0, 80.0], "shape": [30, 45]}),
}


def global_cause(src: dict, dst: dict, dst_chunks: Any) -> Optional[str]:
    """Names the one geometric circumstance of a whole-world / polar pair that the tile-overlap
    computation is known not to handle (known findings D13g, D13h); None for ordinary pairs."""
    polar = {3413, 3031}
    for g, other in ((src, dst), (dst, src)):
        if "aff" not in g:
            return None
        a, b, c, d, e, f = _affine(g["aff"])[:6]
        ny, nx = g["shape"]
        xs, ys = sorted([c, c + a * nx + b * ny]), sorted([f, f + d * nx + e * ny])
        if g["crs"] in polar and xs[0] < 0 < xs[1] and ys[0] < 0 < ys[1]:
            return "pole-in-footprint"  # polar stereographic grid with the pole inside
        if g["crs"] == 4326 and other["crs"] in polar and (ys[1] >= 90 - 1e-9 or ys[0] <= -90 + 1e-9):
            return "pole-in-footprint"  # lon/lat grid reaching a pole, paired with a polar stereographic grid
    if dst["crs"] == 4326 and src["crs"] != 4326:
        a = abs(_affine(dst["aff"])[0])
        if min(int(dst_chunks[1]), dst["shape"][1]) * a >= 360 - 1e-9:
            return "world-extent-tile"
    return None


def generate(rng: random.Random, tier: str) -> dict:
    # pylint: disable=too-many-locals,too-many-branches,too-many-statements
    mode = rng.choice(["same-exact"] * 5 + ["same-inexact"] * 2 + ["same-rotated"] * 2 + ["cross"] * 4)
    if rng.random() < 0.06:
        mode = "cross-global"
    sides = [1, 2, 3, 5, 8, 13, 16, 17, 24, 31, 48] + ([64, 96] if tier == "thorough" else [])
    aligned_chunks = False
    sny, snx = rng.choice(sides), rng.choice(sides)
    g_tpl = rng.choice(sorted(GLOBAL_TEMPLATES))
    if mode == "cross-global":
        sny, snx = GLOBAL_TEMPLATES[g_tpl][0]["shape"]
    sch = [_draw_chunk(rng, sny), _draw_chunk(rng, snx)]
    dtype = rng.choice(["uint8", "int8", "uint16", "int16", "int32", "float32", "float64", "bool"] * 4 + ["uint32", "int64"])
    kind = np.dtype(dtype).kind
    nd_cfg = rng.choice(["none", "none", "src", "dst", "both", "nan", "nan+dst"])
    if nd_cfg in ("nan", "nan+dst") and kind != "f":
        nd_cfg = "none"
    src_nd = dst_nd = None
    if nd_cfg in ("src", "both"):
        src_nd = rng.choice([0, 100, 120] if dtype != "uint8" else [0, 250, 255])
    if nd_cfg in ("dst", "both"):
        dst_nd = rng.choice([99, 0, 7] if dtype != "int8" else [99, -3])
    if dtype == "bool" and nd_cfg != "none":
        # two values only: the data is whatever the nodata value is not
        b = rng.choice([0, 1, 1])
        src_nd, dst_nd = (b if src_nd is not None else None), (b if dst_nd is not None else None)
    if nd_cfg in ("nan", "nan+dst"):
        src_nd = "nan"
    if nd_cfg == "nan+dst":
        dst_nd = rng.choice([99, 0, 7])  # NaN-coded source nodata, another value asked for in the result
    tdim = rng.choice([0, 0, 0, 1, 2, 3, 3, 4])
    bdim = rng.choice([2, 3, 4]) if (tdim == 0 and rng.random() < 0.08) else 0  # trailing band axis instead
    # explicit, irregular chunk sizes along the non-spatial axis (what concatenation or slicing leaves behind)
    ns_irregular = None
    n_ns = tdim or bdim
    if n_ns >= 3 and rng.random() < 0.4:
        ns_irregular = rng.choice({3: [[1, 2]], 4: [[1, 3], [1, 1, 2], [1, 2, 1], [2, 1, 1]]}[n_ns])
    resampling = "nearest" if rng.random() < 0.8 else rng.choice(["bilinear", "cubic", "average", "mode"])
    if dtype == "bool" or dtype == "int8":
        resampling = "nearest" if rng.random() < 0.9 else resampling

    if mode.startswith("same"):
        crs = rng.choice([3857, 32633, 4326, 3035])
        if mode == "same-exact":
            ps = rng.choice([0.25, 0.5, 1.0, 2.0, 4.0, 8.0, 16.0])
            ox, oy = rng.randrange(-4000, 4000) / 8.0, rng.randrange(-4000, 4000) / 8.0
            if crs == 4326:
                ox, oy = ox / 100.0, oy / 100.0  # keep degrees in range; dyadic/100 is inexact -> treat as inexact
                ps = ps / 64.0
                ox, oy = round(ox * 64) / 64.0, round(oy * 64) / 64.0
            sy = -1 if rng.random() < 0.8 else 1
            sx = 1 if rng.random() < 0.9 else -1
            src_aff = [ps * sx, 0.0, ox, 0.0, ps * sy, oy]
            scale = rng.choice([1.0, 1.0, 1.0, 2.0, 0.5, 4.0, 0.25, 8.0, 0.125])
            dps = ps * scale
            shift_kind = rng.choice(["int", "int", "half", "quarter", "eighth"])
            unit = {"int": 1.0, "half": 0.5, "quarter": 0.25, "eighth": 0.125}[shift_kind] * min(ps, dps)
            place = rng.choice(["contain", "contain", "partial", "partial", "touch", "disjoint", "inside"])
            dsy = sy if rng.random() < 0.75 else -sy
            dsx = sx if rng.random() < 0.85 else -sx
            if rng.random() < 0.12 and crs != 4326:
                place = "sliver"  # extreme zoom-in onto a hair's breadth next to a source pixel / chunk boundary
        else:
            ps = rng.choice([10.0, 30.0, 0.1, 25.0, 7.3])
            if crs == 4326:
                ps = rng.choice([0.1, 0.01, 0.00025])
            ox, oy = (rng.uniform(-50, 50), rng.uniform(-40, 40)) if crs == 4326 else (rng.uniform(2e5, 8e5), rng.uniform(4e6, 6e6))
            sx = 1 if rng.random() < 0.8 else -1  # source mirrored in x: both resolutions negative
            sy = -1 if rng.random() < 0.85 else 1
            src_aff = [ps * sx, 0.0, ox, 0.0, ps * sy, oy]
            scale = rng.choice([1.0, 1.0, 2.0, 0.5, 3.0, 1.7, 1 / 3.0])
            dps = ps * scale
            unit = rng.choice([1.0, 0.5, 0.3, 0.013]) * min(ps, dps)
            place = rng.choice(["contain", "contain", "partial", "partial", "touch", "disjoint", "inside"])
            dsy, dsx = (sy if rng.random() < 0.8 else -sy), sx
        # destination extent in source-pixel units, then converted
        w, h = snx * ps, sny * ps
        x_lo, y_lo = min(ox, ox + sx * w), min(oy, oy + sy * h)
        pad_l, pad_r, pad_t, pad_b = (rng.randrange(0, 6) for _ in range(4))
        if place == "contain":
            bx0, bx1, by0, by1 = x_lo - pad_l * dps, x_lo + w + pad_r * dps, y_lo - pad_b * dps, y_lo + h + pad_t * dps
        elif place == "inside":
            bx0, bx1 = x_lo + w * 0.25, x_lo + w * 0.75
            by0, by1 = y_lo + h * 0.25, y_lo + h * 0.75
        elif place == "partial":
            fx, fy = rng.choice([-0.6, 0.0, 0.6]), rng.choice([-0.6, 0.0, 0.6])
            if fx == 0 and fy == 0:
                fx = 0.5
            bx0, bx1 = x_lo + fx * w - pad_l * dps, x_lo + w + fx * w + pad_r * dps
            by0, by1 = y_lo + fy * h - pad_b * dps, y_lo + h + fy * h + pad_t * dps
        elif place == "touch":
            side = rng.choice(["l", "r", "t", "b"])
            bx0, bx1, by0, by1 = x_lo, x_lo + w, y_lo, y_lo + h
            if side == "l":
                bx0, bx1 = x_lo - w - pad_l * dps, x_lo
            elif side == "r":
                bx0, bx1 = x_lo + w, x_lo + 2 * w + pad_r * dps
            elif side == "t":
                by0, by1 = y_lo + h, y_lo + 2 * h + pad_t * dps
            else:
                by0, by1 = y_lo - h - pad_b * dps, y_lo
        elif place == "sliver":
            scale = 1.0 / rng.choice([512, 1024, 4096])
            dps = ps * scale
            unit = dps / 4.0
            cx, cy = rng.randrange(1, max(2, snx)), rng.randrange(1, max(2, sny))  # a source pixel corner ...
            if rng.random() < 0.7:  # ... preferably one where four source chunks meet
                cx = sch[1] * rng.randrange(1, max(2, -(-snx // sch[1]))) if sch[1] < snx else cx
                cy = sch[0] * rng.randrange(1, max(2, -(-sny // sch[0]))) if sch[0] < sny else cy
            kx, ky = rng.choice([0.75, 0.5, 1.25, 3.0, 8.0]), rng.choice([0.75, 0.5, 1.25, 3.0, 8.0])
            bx0 = x_lo + cx * ps - kx * dps
            by0 = y_lo + cy * ps - ky * dps
            bx1, by1 = bx0 + rng.choice([1, 8, 24]) * dps, by0 + rng.choice([1, 8, 24]) * dps
        else:  # disjoint
            k = rng.choice([2, 3, 10])
            bx0, bx1 = x_lo + k * w + 5 * dps, x_lo + (k + 1) * w + (5 + pad_r) * dps
            by0, by1 = y_lo - (k - 1) * h, y_lo - (k - 2) * h + pad_t * dps
        # snap the destination origin to multiples of `unit` relative to the source origin
        def snap(v, ref):
            return ref + round((v - ref) / unit) * unit

        bx0, by0 = snap(bx0, ox), snap(by0, oy)
        dnx = max(1, min(64, int(round((bx1 - bx0) / dps))))
        dny = max(1, min(64, int(round((by1 - by0) / dps))))
        dox = bx0 if dsx > 0 else bx0 + dnx * dps
        doy = by0 if dsy > 0 else by0 + dny * dps
        dst_aff = [dps * dsx, 0.0, dox, 0.0, dps * dsy, doy]
        special = rng.random()
        if mode == "same-exact" and place != "sliver" and special < 0.16:
            # (special < 0.10) chunk-aligned: same pixel size and orientation, shifted by whole source chunks, so
            # that destination chunks coincide with source chunks (what a crop, a re-chunk or "same grid, other
            # nodata" request looks like); (otherwise) unit-pixel grids through the CRS origin with a chunk corner
            # - or the whole raster's corner - exactly at (0, 0), e.g. the south-east quadrant of a 1-degree world grid
            origin = special >= 0.10 and crs != 4326
            if origin:
                ps, sx, sy = 1.0, 1, -1
                src_aff = [1.0, 0.0, ox, 0.0, -1.0, oy]
                x_lo, y_lo = ox, oy - sny
            ki, kj = rng.choice([-1, 0, 0, 1]), rng.choice([-1, 0, 0, 1])
            if origin and rng.random() < 0.5:
                ki, kj = rng.choice([-3, -2, 2, 3]), rng.choice([-3, 2, 0])  # whole pixels, not whole chunks
                scale_o = rng.choice([1.0, 1.0, 2.0, 0.5])
            else:
                ki, kj, scale_o = ki * sch[1], kj * sch[0], 1.0
            dps = ps * scale_o
            dnx = max(1, min(64, int(round(rng.choice([snx, snx, snx + sch[1], max(1, snx - sch[1])]) / scale_o))))
            dny = max(1, min(64, int(round(rng.choice([sny, sny, sny + sch[0], max(1, sny - sch[0])]) / scale_o))))
            dox, doy = ox + sx * ki * ps, oy + sy * kj * ps
            dst_aff = [dps * sx, 0.0, dox, 0.0, dps * sy, doy]
            aligned_chunks = True
            if origin:
                # translate both grids so that the chosen corner lies at (0, 0)
                which = rng.choice(["src-chunk", "src-chunk", "dst-chunk", "dst-chunk", "src", "dst"])
                if which == "src-chunk":
                    cx, cy = ox + sch[1] * rng.randrange(0, -(-snx // sch[1])), oy - sch[0] * rng.randrange(0, -(-sny // sch[0]))
                elif which == "dst-chunk":
                    cx, cy = dox + dps * sch[1] * rng.randrange(0, -(-dnx // sch[1])), doy - dps * sch[0] * rng.randrange(0, -(-dny // sch[0]))
                elif which == "src":
                    cx, cy = ox, oy
                else:
                    cx, cy = dox, doy
                src_aff[2], src_aff[5] = src_aff[2] - cx, src_aff[5] - cy
                dst_aff[2], dst_aff[5] = dst_aff[2] - cx, dst_aff[5] - cy
        if mode == "same-exact" and place == "sliver" and rng.random() < 0.4:
            # a shear far below what can move a pixel centre across an edge within this raster
            dst_aff[1] = dps * rng.choice([9e-6, 2e-6, 5e-8])
            mode = "same-inexact"
        if mode == "same-rotated":
            ang = rng.choice([5.0, 30.0, 45.0, 90.0, -17.0, 180.0])
            dst_aff = ["rot", ang, dps, dox, doy, dnx, dny]
        src = {"crs": crs, "aff": src_aff, "shape": [sny, snx]}
        dst = {"crs": crs, "aff": dst_aff, "shape": [dny, dnx]}
    elif mode == "cross-global":
        src, dst = copy.deepcopy(GLOBAL_TEMPLATES[g_tpl])
    else:
        s_crs, d_crs = rng.sample(sorted(CRS_POOL), 2)
        x0, y0, ps = CRS_POOL[s_crs]
        ps = ps * rng.choice([1.0, 1.0, 0.5, 3.0])
        src = {"crs": s_crs, "aff": [ps, 0.0, x0, 0.0, -ps, y0], "shape": [sny, snx]}
        if rng.random() < 0.15:
            src["aff"] = [-ps, 0.0, x0 + snx * ps, 0.0, -ps, y0]  # same footprint, columns listed east to west (both steps negative)
        place = rng.choice(["contain", "contain", "partial", "partial", "disjoint", "inside", "touch"])
        dst = {
            "crs": d_crs,
            "derive": {"place": place, "zoom": rng.choice([1.0, 1.0, 0.5, 1.7, 3.0]), "pad": [rng.randrange(0, 8) for _ in range(4)], "k": rng.choice([2, 3, 30])},
        }
    dch = [rng.choice([1, 2, 3, 5, 7, 16, 64]), rng.choice([1, 2, 3, 5, 7, 16, 64])]
    if aligned_chunks and rng.random() < 0.8:
        dch = list(sch)
    if mode == "cross-global":
        dch = list(rng.choice([[45, 90], [45, 45], [5, 90], [15, 30], [10, 36], [30, 30], [7, 16], [16, 16], [32, 32]]))
        if g_tpl.startswith("world-dst") and rng.random() < 0.4:
            dch = list(rng.choice([[45, 90], [5, 90], [14, 90]]))  # a destination chunk as wide as the world
    tch = rng.choice([1, max(tdim, 1)])
    src_irregular = None
    if rng.random() < 0.16 and sny >= 4 and snx >= 4:
        # explicit irregular chunk tuples, e.g. (5, 7, 3)
        def split(n):
            if n >= 7 and rng.random() < 0.5:
                # a regular chunking with one interior boundary moved: (4, 4, 4, 3) -> (4, 2, 6, 3).  Sums and offsets
                # of such tuples coincide with those of the regular one at most places, which is where shortcuts for
                # "evenly sized" tilings that test a necessary condition only go wrong (c13r)
                c = rng.randint(2, max(2, n // 3))
                k = n // c
                chunks = [c] * k + ([n - k * c] if n % c else [])
                if len(chunks) >= 3:
                    i = rng.randrange(0 if len(chunks) == 3 else 1, len(chunks) - 2) if rng.random() < 0.8 else 0
                    d = rng.randint(1, c - 1) if c > 1 else 0
                    if d and chunks[i] - d >= 1:
                        chunks[i], chunks[i + 1] = chunks[i] - d, chunks[i + 1] + d
                        return chunks
            cuts = sorted(rng.sample(range(1, n), min(n - 1, rng.choice([1, 2, 3]))))
            return [b - a for a, b in zip([0] + cuts, cuts + [n])]

        src_irregular = [split(sny), split(snx)]
    dst_default = rng.random() < 0.08  # chunks= not given: destination chunks default to the source chunk size
    # bound the number of tasks (every destination chunk is one GDAL warp, ~3 ms of fixed cost)
    cap = 40 if tier == "quick" else 64
    dshape = resolve_dst(src, dst)["shape"]
    if dst_default:
        if src_irregular is not None:
            src_irregular = None
        while -(-dshape[0] // sch[0]) * -(-dshape[1] // sch[1]) > cap:
            grow = [ax for ax in (0, 1) if sch[ax] < [sny, snx][ax]]
            if not grow:
                dst_default = False
                break
            ax = max(grow, key=lambda a: dshape[a] / sch[a])
            sch[ax] = min(sch[ax] * 2 if sch[ax] > 1 else 2, [sny, snx][ax])
        if dst_default:
            dch = [min(sch[0], sny), min(sch[1], snx)]
    while -(-dshape[0] // dch[0]) * -(-dshape[1] // dch[1]) * max(1, tdim // tch) > cap:
        ax = 0 if dshape[0] / dch[0] >= dshape[1] / dch[1] else 1
        dch[ax] = dch[ax] * 2 if dch[ax] > 1 else rng.choice([2, 3])
    while -(-sny // sch[0]) * -(-snx // sch[1]) > cap * 2:
        ax = 0 if sny / sch[0] >= snx / sch[1] else 1
        sch[ax] = sch[ax] * 2 if sch[ax] > 1 else rng.choice([2, 3])
    # pixels equal to the source nodata inside the source (what cloud masks and scene edges look like)
    holes = rng.choice([2, 3, 5, 7]) if (src_nd is not None and rng.random() < 0.35) else 0
    # a second request on the same dask source that differs in one parameter, computed in the same graph
    pair = None
    if mode != "cross-global" and rng.random() < 0.12:
        vary = rng.choice(["dst_nodata", "dst_nodata", "src_nodata", "src_nodata", "resampling", "ds_src_nodata"])
        if vary == "resampling":
            alt: Any = "bilinear" if resampling == "nearest" else "nearest"
        elif dtype == "bool":
            cur = dst_nd if vary == "dst_nodata" else src_nd
            alt = rng.choice([x for x in (None, 0, 1) if x != cur])
        else:
            cur = dst_nd if vary == "dst_nodata" else src_nd
            pool = [None, 0, 7, 99, 100, 120] if dtype != "uint8" else [None, 0, 7, 99, 250, 255]
            alt = rng.choice([x for x in pool if x != cur and not (cur == "nan" and x is None)])
        pair = {"vary": vary, "alt": alt}
    config = {
        "mode": mode,
        "dtype": dtype,
        "holes": holes,
        # valid source pixels that happen to hold the value asked for as destination nodata
        "plant_dst": bool(dst_nd is not None and dst_nd != src_nd and dtype != "bool" and rng.random() < 0.3),
        "pair": pair,
        "src_nodata": src_nd,
        "dst_nodata": dst_nd,
        "tdim": tdim,
        "bdim": bdim,
        "resampling": resampling,
        "src_chunks": sch,
        "dst_chunks": dch,
        "time_chunk": tch,
        "ns_irregular": ns_irregular,
        "src_irregular": src_irregular,
        "dst_default": dst_default,
        "dask": [
            {
                "workers": rng.choice([1, 1, 1, 2, 3, 4]),
                "optimize": rng.random() < 0.6,
                "transport": rng.choice([0.0, 0.0, 0.3, 1.0]),
                "recompute": rng.choice([0.0, 0.0, 0.1, 0.3]),
                "stall": rng.choice([0.0, 0.0, 0.1]),
                "policy": draw_policy(rng, groups=None, horizon=200),
                "trace": rng.choice(["seams"] * 5 + ["lines"] * 3 + ["deep"] * 2),
            }
            for _ in range(2)
        ],
        "uuid_seed": rng.getrandbits(32),
        # same values in the other byte order (what netCDF / FITS readers hand out)
        "big_endian_input": bool(np.dtype(dtype).itemsize > 1 and rng.random() < 0.06),
    }
    return {"config": config, "workload": {"src": src, "dst": dst}}


# --------------------------------------------------------------------------------------
# geometry helpers (independent of odc-geo)
# --------------------------------------------------------------------------------------
def _affine(a) -> Any:
    from affine import Affine

    if a and a[0] == "rot":
        _, ang, dps, dox, doy, dnx, dny = a
        base = Affine(dps, 0.0, dox, 0.0, -dps, doy)
        # rotate about the centre of the destination pixel rectangle
        return base * Affine.translation(dnx / 2.0, dny / 2.0) * Affine.rotation(ang) * Affine.translation(-dnx / 2.0, -dny / 2.0)
    return Affine(*a)


_TR_CACHE: Dict[Tuple[int, int], Any] = {}


def _transformer(a: int, b: int):
    import pyproj

    k = (a, b)
    if k not in _TR_CACHE:
        _TR_CACHE[k] = pyproj.Transformer.from_crs(f"EPSG:{a}", f"EPSG:{b}", always_xy=True)
    return _TR_CACHE[k]


def resolve_dst(src: dict, dst: dict) -> dict:
    """Turn a derived cross-CRS destination into explicit affine + shape (pure function of the record)."""
    if "aff" in dst:
        return dst
    d = dst["derive"]
    sa = _affine(src["aff"])
    sny, snx = src["shape"]
    tr = _transformer(src["crs"], dst["crs"])
    # dense boundary of the source footprint
    t = np.linspace(0, 1, 17)
    bx = np.concatenate([t * snx, np.full_like(t, snx), t[::-1] * snx, np.zeros_like(t)])
    by = np.concatenate([np.zeros_like(t), t * sny, np.full_like(t, sny), t[::-1] * sny])
    wx, wy = sa * (bx, by)
    X, Y = tr.transform(wx, wy)
    x0, x1, y0, y1 = float(np.min(X)), float(np.max(X)), float(np.min(Y)), float(np.max(Y))
    w, h = x1 - x0, y1 - y0
    res = max(w / max(snx, 1), h / max(sny, 1)) * d["zoom"]
    res = float(f"{res:.6g}")
    pl, pr, pt, pb = d["pad"]
    place = d["place"]
    if place == "contain":
        X0, X1, Y0, Y1 = x0 - pl * res, x1 + pr * res, y0 - pb * res, y1 + pt * res
    elif place == "inside":
        X0, X1, Y0, Y1 = x0 + 0.3 * w, x1 - 0.3 * w, y0 + 0.3 * h, y1 - 0.3 * h
    elif place == "partial":
        X0, X1, Y0, Y1 = x0 + 0.5 * w, x1 + 0.5 * w + pr * res, y0 - 0.4 * h - pb * res, y1 - 0.4 * h
    elif place == "touch":
        X0, X1, Y0, Y1 = x1, x1 + w + pr * res, y0, y1
    else:
        k = d["k"]
        X0, X1, Y0, Y1 = x0 + k * w + 8 * res, x0 + (k + 1) * w + 8 * res, y0 - k * h, y0 - (k - 1) * h
    X0 = round(X0 / res) * res
    Y1 = round(Y1 / res) * res
    nx = max(1, min(64, int(np.ceil((X1 - X0) / res))))
    ny = max(1, min(64, int(np.ceil((Y1 - Y0) / res))))
    return {"crs": dst["crs"], "aff": [res, 0.0, X0, 0.0, -res, Y1], "shape": [ny, nx]}


def src_pixel_coords(src: dict, dst: dict) -> Tuple[np.ndarray, np.ndarray]:
    """Source pixel coordinates (col, row as floats) of every destination pixel centre."""
    da_, sa = _affine(dst["aff"]), _affine(src["aff"])
    ny, nx = dst["shape"]
    cols, rows = np.meshgrid(np.arange(nx) + 0.5, np.arange(ny) + 0.5)
    wx, wy = da_ * (cols, rows)
    if src["crs"] != dst["crs"]:
        tr = _transformer(dst["crs"], src["crs"])
        wx, wy = tr.transform(wx, wy)
        wx, wy = np.asarray(wx, dtype="float64"), np.asarray(wy, dtype="float64")
    sc, sr = ~sa * (wx, wy)
    return np.asarray(sc, dtype="float64"), np.asarray(sr, dtype="float64")


def make_data(shape: Tuple[int, ...], dtype: str, avoid: List[Any]) -> np.ndarray:
    n = int(np.prod(shape))
    dt = np.dtype(dtype)
    if dt.kind == "b":
        fv = [a for a in avoid if a is not None]
        return np.zeros(shape, dtype=dt) if (fv and bool(fv[-1])) else np.ones(shape, dtype=dt)
    if dt.kind == "f":
        vals = (np.arange(n, dtype="float64") * 1.25 + 1.5).astype(dt)
    else:
        info = np.iinfo(dt)
        hi = min(int(info.max), 30000)
        vals = (1 + (np.arange(n, dtype="int64") * 7) % (hi - 1)).astype("int64")
        bad = {int(a) for a in avoid if a is not None and a == a}
        for b in bad:
            vals[vals == b] = (b % (hi - 2)) + 1 if ((b % (hi - 2)) + 1) not in bad else 3
        vals = vals.astype(dt)
    return vals.reshape(shape)


def fill_value(dtype: str, src_nd, dst_nd):
    if dst_nd is not None:
        return dst_nd
    if src_nd is not None:
        return src_nd
    return float("nan") if np.dtype(dtype).kind == "f" else 0


def is_fill(a: np.ndarray, fv) -> np.ndarray:
    if isinstance(fv, float) and fv != fv:
        return np.isnan(a)
    return a == np.asarray(fv).astype(a.dtype)


# --------------------------------------------------------------------------------------
# execution
# --------------------------------------------------------------------------------------
def execute(record: dict, rng: Optional[random.Random]) -> Outcome:
    # pylint: disable=too-many-locals,too-many-branches,too-many-statements
    import dask
    import dask.array as da
    import odc.geo._dask as OD
    from odc.geo.geobox import GeoBox
    from odc.geo.xr import wrap_xr, xr_reproject

    cfg = record["config"]
    src, dst0 = record["workload"]["src"], record["workload"]["dst"]
    dst = resolve_dst(src, dst0)
    ch = Chooser(rng, record.get("schedule"), record.get("faults"), None)
    log = Digest()
    probes = {
        "disjoint_runs": 0,
        "constant_fill_blocks": 0,
        "partially_covered_chunks": 0,
        "tie_pixels_masked": 0,
        "cross_crs_runs": 0,
        "rotated_runs": 0,
        "recompute_kept_second": 0,
        "multi_worker_runs": 0,
        "int8_or_bool_detour": 0,
        "geobox_sanity_mismatch": 0,
        "interior_fill_differs_non_nearest": 0,
        "irregular_source_chunks": 0,
        "default_destination_chunks": 0,
        "trailing_band_axis": 0,
        "irregular_nonspatial_chunks": 0,
        "big_endian_input": 0,
        "global_or_polar_pairs": 0,
        "global_pairs_raising": 0,
        "extreme_zoom_in": 0,
        "paired_requests": 0,
        "source_holds_destination_nodata_value": 0,
        "line_preemption_runs": 0,
        "source_holds_nodata_pixels": 0,
        "chunk_with_gdal_identity_transform": 0,
        "destination_chunk_equals_source_chunk": 0,
    }
    dtype = cfg["dtype"]
    src_nd = float("nan") if cfg["src_nodata"] == "nan" else cfg["src_nodata"]
    dst_nd = cfg["dst_nodata"]
    tdim = cfg["tdim"]
    sny, snx = src["shape"]
    bdim = int(cfg.get("bdim") or 0)
    shape = (sny, snx) if not tdim else (tdim, sny, snx)
    if bdim:
        shape = (sny, snx, bdim)
        probes["trailing_band_axis"] = 1
    fv = fill_value(dtype, src_nd, dst_nd)
    pair = cfg.get("pair")
    src_nd2, dst_nd2, resampling2 = src_nd, dst_nd, cfg["resampling"]
    if pair:
        alt = float("nan") if pair["alt"] == "nan" else pair["alt"]
        if pair["vary"] == "dst_nodata":
            dst_nd2 = alt
        elif pair["vary"] in ("src_nodata", "ds_src_nodata"):
            src_nd2 = src_nd if (alt is None and pair["vary"] == "src_nodata") else alt  # keyword None: the attribute decides
        else:
            resampling2 = alt
        probes["paired_requests"] = 1
    fv2 = fill_value(dtype, src_nd2, dst_nd2)
    data = make_data(shape, dtype, [src_nd, dst_nd, fv, src_nd2, dst_nd2, fv2])
    if cfg.get("holes") and src_nd is not None:
        # planted pixels equal to the source nodata (every k-th, phase 1: not aligned with chunk edges)
        flat = data.reshape(-1)
        flat[1 :: int(cfg["holes"])] = np.asarray(src_nd).astype(data.dtype)
        probes["source_holds_nodata_pixels"] = 1
    if cfg.get("plant_dst") and dst_nd is not None:
        flat = data.reshape(-1)
        flat[3::11] = np.asarray(dst_nd).astype(data.dtype)
        probes["source_holds_destination_nodata_value"] = 1
    if dtype in ("int8", "bool"):
        probes["int8_or_bool_detour"] = 1
    if hasattr(OD, "uuid4"):
        OD.uuid4 = _seeded_uuid(cfg["uuid_seed"])
    sims: List[DaskSim] = []
    v: Optional[Violation] = None
    outs: List[np.ndarray] = []
    ref = None
    try:
        s_gbox = GeoBox(tuple(src["shape"]), _affine(src["aff"]), f"EPSG:{src['crs']}")
        d_gbox = GeoBox(tuple(dst["shape"]), _affine(dst["aff"]), f"EPSG:{dst['crs']}")
        time = [f"200{i}-01-01" for i in range(tdim)] if tdim else None
        sch: Any = tuple(cfg["src_chunks"]) if not tdim else (cfg["time_chunk"], *cfg["src_chunks"])
        if bdim:
            sch = (*cfg["src_chunks"], rng_bdim_chunk(cfg, bdim))
        if cfg.get("src_irregular") and not bdim:
            irr = tuple(tuple(c) for c in cfg["src_irregular"])
            sch = irr if not tdim else ((cfg["time_chunk"],) * (tdim // cfg["time_chunk"]) + ((tdim % cfg["time_chunk"],) if tdim % cfg["time_chunk"] else ()), *irr)
            probes["irregular_source_chunks"] = 1
        if cfg.get("ns_irregular") and sum(cfg["ns_irregular"]) == (tdim or bdim):
            sch = (*sch[:-1], tuple(cfg["ns_irregular"])) if bdim else (tuple(cfg["ns_irregular"]), *sch[1:])
            probes["irregular_nonspatial_chunks"] = 1
        feed = data
        if cfg.get("big_endian_input"):
            feed = data.astype(data.dtype.newbyteorder(">"))
            probes["big_endian_input"] = 1
        xn = wrap_xr(feed.copy(), s_gbox, nodata=src_nd, time=time)
        kw: Dict[str, Any] = {"resampling": cfg["resampling"]}
        if dst_nd is not None:
            kw["dst_nodata"] = dst_nd
        ref = xr_reproject(xn, d_gbox, **kw).values
        kw2: Dict[str, Any] = {}
        ref2 = None
        if pair:
            kw2 = {"resampling": resampling2}
            if dst_nd2 is not None:
                kw2["dst_nodata"] = dst_nd2
            if pair["vary"] == "src_nodata":
                kw2["src_nodata"] = src_nd2  # explicit keyword, the array's own attribute says otherwise
                ref2 = xr_reproject(wrap_xr(feed.copy(), s_gbox, nodata=src_nd, time=time), d_gbox, **kw2).values
            else:
                ref2 = xr_reproject(wrap_xr(feed.copy(), s_gbox, nodata=src_nd2, time=time), d_gbox, **kw2).values
        outs2: List[np.ndarray] = []
        for rep, dcfg in enumerate(cfg["dask"]):
            darr = da.from_array(feed.copy(), chunks=sch, name=f"src{rep}-{cfg['uuid_seed']:032x}")
            xd = wrap_xr(darr, s_gbox, nodata=src_nd, time=time)
            ckw: Dict[str, Any] = {} if cfg.get("dst_default") else {"chunks": tuple(cfg["dst_chunks"])}
            if cfg.get("dst_default"):
                probes["default_destination_chunks"] = 1
            rd = xr_reproject(xd, d_gbox, **ckw, **kw)
            rd2 = None
            if pair and pair["vary"] == "ds_src_nodata":
                import xarray as xr

                # one Dataset, two variables over the very same dask array, different nodata attributes
                rds = xr_reproject(xr.Dataset({"a": xd, "b": wrap_xr(darr, s_gbox, nodata=src_nd2, time=time)}), d_gbox, **ckw, **kw2)
                rd, rd2 = rds["a"], rds["b"]
            elif pair:
                rd2 = xr_reproject(xd, d_gbox, **ckw, **kw2)
            ch.policy = dcfg.get("policy") or {"kind": "uniform"}
            # pre-emption at the entry of the three seam functions, or ("trace": "lines") at every line of the
            # chunk-level code (_dask.py, _blocks.py, warp.py) that runs inside tasks
            kernel = (Kernel(trace_files=_line_files(dcfg.get("trace") == "deep")) if dcfg.get("trace") in ("lines", "deep") else Kernel(seam_funcs=_seams())) if dcfg["workers"] > 1 else None
            if kernel is not None and dcfg.get("trace") in ("lines", "deep"):
                probes["line_preemption_runs"] = 1
            sim = DaskSim(
                ch,
                log,
                workers=dcfg["workers"],
                transport=dcfg["transport"],
                recompute=dcfg["recompute"],
                pure=lambda c, data, value: True,
                stall=dcfg["stall"] * (0.1 if dcfg.get("trace") in ("lines", "deep") else 1.0),  # per step: line-level runs have fifty times the steps
                kernel=kernel,
                tag=f"r{rep}",
                real=dcfg.get("real"),
            )
            sims.append(sim)
            try:
                if kernel is not None:
                    activate(kernel)
                    probes["multi_worker_runs"] = 1
                if rd2 is not None:
                    res, res2 = dask.compute(rd, rd2, scheduler=sim, optimize_graph=dcfg["optimize"])
                    outs2.append(np.asarray(res2.values))
                else:
                    (res,) = dask.compute(rd, scheduler=sim, optimize_graph=dcfg["optimize"])
            finally:
                if kernel is not None:
                    ch.count("preemption", kernel.switches)  # context switches between worker threads actually taken
                    kernel.shutdown()
                    activate(None)
            outs.append(np.asarray(res.values))
            try:
                gb = res.odc.geobox
                if gb is None or gb.shape != d_gbox.shape or not np.allclose(tuple(gb.transform)[:6], tuple(d_gbox.transform)[:6], rtol=1e-9, atol=1e-9 * abs(d_gbox.transform.a)):
                    probes["geobox_sanity_mismatch"] += 1
            except Exception:  # pylint: disable=broad-except
                probes["geobox_sanity_mismatch"] += 1
    except HarnessError:
        raise
    except Deadlock as e:
        raise HarnessError(f"C13: {e}") from e
    except Exception as e:  # pylint: disable=broad-except
        v = exc_to_violation(PROP, "O13.3" if _is_disjoint(src, dst) else "O13.6", e, extra={"mode": cfg["mode"], "disjoint": _is_disjoint(src, dst), "cause": global_cause(src, dst, cfg["dst_chunks"])})
        if cfg["mode"] == "cross-global":
            probes["global_pairs_raising"] = 1

    if v is None:
        assert ref is not None
        v = check(cfg, src, dst, ref, outs, fv, probes)
    if v is None and pair:
        assert ref2 is not None
        cfg2 = dict(cfg, resampling=resampling2, src_nodata=cfg["src_nodata"] if src_nd2 is src_nd else pair["alt"], dst_nodata=dst_nd2)
        v = check(cfg2, src, dst, ref2, outs2, fv2, probes)
        if v is not None:
            v.detail = dict(v.detail or {}, second_request=pair)
    _geometry_probes(cfg, src, dst, probes)
    for o in outs + outs2:
        log.add("result", o.shape, str(o.dtype), _hash_arr(o))
    if _dst_px_in_src_px(src, dst) < 1 / 400:
        probes["extreme_zoom_in"] = 1
    if cfg["mode"] in ("cross", "cross-global"):
        probes["cross_crs_runs"] = 1
    if cfg["mode"] == "cross-global":
        probes["global_or_polar_pairs"] = 1
    if cfg["mode"] == "same-rotated":
        probes["rotated_runs"] = 1
    for s in sims:
        probes["constant_fill_blocks"] += sum(1 for c in s.order if str(c[0]).startswith("reproject") and False)
    ntasks = sum(s.ntasks for s in sims)
    steps = sum(s.steps for s in sims)
    order = tuple(tuple(s.order) for s in sims)
    cls = (str(record["workload"]), cfg["dtype"], cfg["src_nodata"], cfg["dst_nodata"], cfg["tdim"], cfg["resampling"], tuple(cfg["src_chunks"]), tuple(cfg["dst_chunks"]), order, tuple(ch.faults_out))
    dy_, dx_ = cfg["dst_chunks"]
    n_dst_chunks = -(-dst["shape"][0] // dy_) * -(-dst["shape"][1] // dx_)
    n_reproject = (n_dst_chunks if len(sims) == 2 else 0) + 2  # layer names are not relied upon
    sample = {
        "config": {k: v_ for k, v_ in cfg.items() if k != "dask"},
        "dask": cfg["dask"],
        "src": src,
        "dst": dst,
        "tasks": ntasks,
        "layers": sims[0].layers if sims else [],
        "order_head": [list(c) for c in (sims[0].order[:25] if sims else [])],
        "faults_head": [list(f) for f in ch.faults_out[:15]],
    }
    return Outcome(v, log.hex(), ch, stats={"probes": probes}, cls=cls, nontrivial=n_reproject > 2, sample=sample, steps=steps)


def _geometry_probes(cfg: dict, src: dict, dst: dict, probes: dict) -> None:
    """Reach probes for two circumstances the generator aims at: a source or destination chunk whose own
    transform is the one GDAL takes for "not georeferenced", and destination chunks that coincide with
    source chunks."""
    try:
        sa, da_ = _affine(src["aff"]), _affine(dst["aff"])
    except Exception:  # pylint: disable=broad-except
        return
    if src["crs"] != dst["crs"] or any(abs(x) > 0 for x in (sa.b, sa.d, da_.b, da_.d)):
        return
    sch = cfg["src_irregular"] or [[cfg["src_chunks"][0]] * -(-src["shape"][0] // cfg["src_chunks"][0]), [cfg["src_chunks"][1]] * -(-src["shape"][1] // cfg["src_chunks"][1])]
    dch = [[cfg["dst_chunks"][0]] * -(-dst["shape"][0] // cfg["dst_chunks"][0]), [cfg["dst_chunks"][1]] * -(-dst["shape"][1] // cfg["dst_chunks"][1])]

    def corners(a, chunks):
        ys, xs = np.cumsum([0] + list(chunks[0]))[:-1], np.cumsum([0] + list(chunks[1]))[:-1]
        return {(a.c + a.a * x, a.f + a.e * y) for x in xs for y in ys}

    for a, chunks in ((sa, sch), (da_, dch)):
        if (a.a, a.e) == (1.0, -1.0) and (0.0, 0.0) in corners(a, chunks):
            probes["chunk_with_gdal_identity_transform"] = 1
    if (sa.a, sa.e) == (da_.a, da_.e) and cfg["src_chunks"] == cfg["dst_chunks"] and corners(sa, sch) & corners(da_, dch):
        probes["destination_chunk_equals_source_chunk"] = 1


def rng_bdim_chunk(cfg: dict, bdim: int) -> int:
    """All bands in one chunk or one chunk per band (a pure function of the record)."""
    return bdim if (cfg["uuid_seed"] % 2) else 1


def _hash_arr(a: np.ndarray) -> str:
    import hashlib

    return hashlib.blake2b(np.ascontiguousarray(a).tobytes(), digest_size=8).hexdigest()


_SEAMS: Optional[Tuple[Tuple[str, str], ...]] = None


def _line_files(deep: bool = False) -> Tuple[str, ...]:
    import odc.geo._blocks as B
    import odc.geo._dask as OD
    import odc.geo.geobox as G
    import odc.geo.roi as R
    import odc.geo.warp as W

    # deep: also the tiling objects embedded in the graph and shared by every task (GeoboxTiles.clip, crops, tile
    # lookups) - check-then-act on such an object is invisible unless a task is pre-empted inside it (c13l)
    return (OD.__file__, B.__file__, W.__file__) + ((G.__file__, R.__file__) if deep else ())


def _seams() -> Tuple[Tuple[str, str], ...]:
    global _SEAMS  # pylint: disable=global-statement
    if _SEAMS is None:
        import odc.geo._blocks as B
        import odc.geo._dask as OD
        import odc.geo.warp as W

        _SEAMS = ((OD.__file__, "_do_chunked_reproject"), (B.__file__, "extract"), (W.__file__, "_rio_reproject"))
    return _SEAMS


def _is_disjoint(src: dict, dst: dict) -> bool:
    try:
        sc, sr = src_pixel_coords(src, dst)
    except Exception:  # pylint: disable=broad-except
        return False
    sny, snx = src["shape"]
    m = 3 + 3 * _dst_px_in_src_px(src, dst)
    inside = np.isfinite(sc) & np.isfinite(sr) & (sc > -m) & (sc < snx + m) & (sr > -m) & (sr < sny + m)
    return not bool(inside.any())


def _dst_px_in_src_px(src: dict, dst: dict) -> float:
    """Size of one destination pixel measured in source pixels (max over axes, at the centre)."""
    da_, sa = _affine(dst["aff"]), _affine(src["aff"])
    ny, nx = dst["shape"]
    pts_c = np.array([nx / 2.0, nx / 2.0 + 1, nx / 2.0])
    pts_r = np.array([ny / 2.0, ny / 2.0, ny / 2.0 + 1])
    wx, wy = da_ * (pts_c, pts_r)
    if src["crs"] != dst["crs"]:
        wx, wy = _transformer(dst["crs"], src["crs"]).transform(wx, wy)
    sc, sr = ~sa * (np.asarray(wx, dtype="float64"), np.asarray(wy, dtype="float64"))
    if not (np.isfinite(sc).all() and np.isfinite(sr).all()):
        return 1.0
    d1 = float(np.hypot(sc[1] - sc[0], sr[1] - sr[0]))
    d2 = float(np.hypot(sc[2] - sc[0], sr[2] - sr[0]))
    return max(d1, d2, 1e-9)


def check(cfg, src, dst, ref: np.ndarray, outs: List[np.ndarray], fv, probes) -> Optional[Violation]:
    # pylint: disable=too-many-locals,too-many-return-statements,too-many-branches
    a, b = outs
    dtype = cfg["dtype"]
    tdim = cfg["tdim"]
    for o in outs:
        if o.shape != ref.shape:
            return Violation(PROP, "O13.1", "shape-differs", {"chunked": list(o.shape), "memory": list(ref.shape)})
        nat = lambda d: np.dtype(d).newbyteorder("=")  # noqa: E731  (byte order is representation, not value)
        if nat(o.dtype) != nat(ref.dtype) or str(nat(o.dtype)) != dtype:
            return Violation(PROP, "O13.1", "dtype-differs", {"chunked": str(o.dtype), "memory": str(ref.dtype), "want": dtype})
    # O13.4 schedule independence
    if not np.array_equal(a, b, equal_nan=(a.dtype.kind == "f")):
        nbad = int((~((a == b) | (_nan(a) & _nan(b)))).sum())
        return Violation(PROP, "O13.4", "schedule-dependent-result", {"pixels": nbad})
    sny, snx = src["shape"]
    sc, sr = src_pixel_coords(src, dst)
    scale = _dst_px_in_src_px(src, dst)
    m = 3.0 + 3.0 * scale
    finite = np.isfinite(sc) & np.isfinite(sr)
    far = ~finite | (sc < -m) | (sc > snx + m) | (sr < -m) | (sr > sny + m)
    inner = finite & (sc > m) & (sc < snx - m) & (sr > m) & (sr < sny - m)
    disjoint = bool(far.all())
    if disjoint:
        probes["disjoint_runs"] = 1
    bdim = int(cfg.get("bdim") or 0)
    planes = [a] if not tdim else list(a)
    rplanes = [ref] if not tdim else list(ref)
    if bdim:
        planes = [a[..., k] for k in range(bdim)]
        rplanes = [ref[..., k] for k in range(bdim)]
    for ti, (pl, rp) in enumerate(zip(planes, rplanes)):
        f_c = is_fill(pl, fv)
        # O13.2 / O13.3: far pixels hold the fill value
        if far.any() and not bool(f_c[far].all()):
            bad = np.argwhere(far & ~f_c)
            got = pl[tuple(bad[0])]
            sig = "disjoint-not-all-fill" if disjoint else "unreached-pixel-not-fill"
            return Violation(
                PROP,
                "O13.3" if disjoint else "O13.2",
                sig,
                {"n": int(len(bad)), "first": bad[0].tolist(), "got": repr(got), "fill": repr(fv), "memory_has": repr(rp[tuple(bad[0])]), "dst_chunks": cfg["dst_chunks"], "kind": np.dtype(dtype).kind, "nodata": [cfg["src_nodata"], cfg["dst_nodata"]]},
            )
        # O13.5 interior coverage.  With nodata pixels planted in the source the fill mask of the interior is
        # pixel content: across CRSs GDAL's approximate transformer may pick the neighbouring source pixel
        # (outside the statement), and on inexact grids exact ties are left out as they are for O13.1
        inner_ = inner
        if cfg.get("holes") or cfg.get("plant_dst"):  # the source holds pixels equal to the fill value
            if src["crs"] != dst["crs"]:
                inner_ = np.zeros_like(inner)
            elif cfg["mode"] != "same-exact":
                inner_ = inner & ~((np.abs(sc - np.round(sc)) < 1e-6) | (np.abs(sr - np.round(sr)) < 1e-6))
        if inner_.any():
            f_m = is_fill(rp, fv)
            if not np.array_equal(f_c[inner_], f_m[inner_]):
                bad = np.argwhere(inner_ & (f_c != f_m))
                if cfg["resampling"] != "nearest":
                    # kernel support reaching into a source tile that is not a dependency of the
                    # chunk: the statement promises nothing here (DESIGN 7.2), counted only
                    probes["interior_fill_differs_non_nearest"] += 1
                    continue
                return Violation(PROP, "O13.5", "interior-fill-differs", {"n": int(len(bad)), "first": bad[0].tolist(), "chunked_is_fill": bool(f_c[tuple(bad[0])]), "dst_chunks": cfg["dst_chunks"], "src_chunks": cfg["src_chunks"]})
        # O13.1 exact equality for same CRS + nearest
        if src["crs"] == dst["crs"] and cfg["resampling"] == "nearest":
            neq = ~((pl == rp) | (_nan(pl) & _nan(rp)))
            if cfg["mode"] != "same-exact":
                # exclude exact ties: centres within 1e-6 px of a source pixel edge
                tie = (np.abs(sc - np.round(sc)) < 1e-6) | (np.abs(sr - np.round(sr)) < 1e-6)
                probes["tie_pixels_masked"] += int(tie.sum())
                neq = neq & ~tie
            if neq.any():
                bad = np.argwhere(neq)
                i = tuple(bad[0])
                both_fill = bool(is_fill(pl, fv)[i]) or bool(is_fill(rp, fv)[i])
                return Violation(
                    PROP,
                    "O13.1",
                    "pixels-differ-fill" if both_fill else "pixels-differ",
                    {"n": int(len(bad)), "first": list(map(int, i)), "chunked": repr(pl[i]), "memory": repr(rp[i]), "src_px": [float(sc[i]), float(sr[i])], "plane": ti, "kind": np.dtype(dtype).kind, "nodata": [cfg["src_nodata"], cfg["dst_nodata"]], "dst_chunks": cfg["dst_chunks"], "src_chunks": cfg["src_chunks"]},
                )
    # partially covered chunk probe
    dy, dx = cfg["dst_chunks"]
    ny, nx = dst["shape"]
    covered = finite & (sc >= 0) & (sc <= snx) & (sr >= 0) & (sr <= sny)
    for y0 in range(0, ny, dy):
        for x0 in range(0, nx, dx):
            blk = covered[y0 : y0 + dy, x0 : x0 + dx]
            if blk.any() and not blk.all():
                probes["partially_covered_chunks"] += 1
            elif not blk.any():
                probes["constant_fill_blocks"] += 1
    return None


def _nan(a: np.ndarray) -> np.ndarray:
    return np.isnan(a) if a.dtype.kind == "f" else np.zeros(a.shape, dtype=bool)


# --------------------------------------------------------------------------------------
# shrinking
# --------------------------------------------------------------------------------------
def candidates(record: dict) -> Iterable[dict]:
    cfg = record["config"]
    wl = record["workload"]
    simple_dask = {"workers": 1, "optimize": True, "transport": 0.0, "recompute": 0.0, "stall": 0.0, "policy": None, "trace": "seams"}
    for i in range(2):
        if cfg["dask"][i] != simple_dask:
            c = copy.deepcopy(record)
            c["config"]["dask"][i] = dict(simple_dask)
            c["faults"] = [f for f in c.get("faults") or [] if not (len(f) > 1 and str(f[1]).startswith(f"r{i}:"))]
            yield c
    if cfg["tdim"]:
        c = copy.deepcopy(record)
        c["config"]["tdim"] = 0
        yield c
    if cfg.get("bdim"):
        c = copy.deepcopy(record)
        c["config"]["bdim"] = 0
        yield c
    for k in ("src_irregular", "dst_default", "ns_irregular", "big_endian_input", "pair", "holes", "plant_dst"):
        if cfg.get(k):
            c = copy.deepcopy(record)
            c["config"][k] = False if k in ("dst_default", "big_endian_input", "plant_dst") else (0 if k == "holes" else None)
            yield c
    for k, simple in (("resampling", "nearest"), ("dst_nodata", None), ("src_nodata", None), ("dtype", "uint8"), ("dtype", "float32"), ("time_chunk", 1)):
        if cfg.get(k) != simple:
            c = copy.deepcopy(record)
            c["config"][k] = simple
            if k == "dtype" and np.dtype(simple).kind != "f" and c["config"]["src_nodata"] == "nan":
                continue
            yield c
    # bigger chunks (fewer tasks)
    for key, shp in (("src_chunks", wl["src"]["shape"]), ("dst_chunks", [64, 64])):
        for ax in range(2):
            if cfg[key][ax] < shp[ax]:
                for nv in (shp[ax], cfg[key][ax] * 2):
                    c = copy.deepcopy(record)
                    c["config"][key][ax] = min(nv, shp[ax])
                    yield c
    # smaller source
    for ax in range(2):
        n = wl["src"]["shape"][ax]
        for nv in sorted({1, n // 2, n - 1}):
            if 1 <= nv < n:
                c = copy.deepcopy(record)
                c["workload"]["src"]["shape"][ax] = nv
                yield c
    if "shape" in wl["dst"]:
        for ax in range(2):
            n = wl["dst"]["shape"][ax]
            for nv in sorted({1, n // 2, n - 1}):
                if 1 <= nv < n:
                    c = copy.deepcopy(record)
                    c["workload"]["dst"]["shape"][ax] = nv
                    yield c
    elif "derive" in wl["dst"]:
        d = wl["dst"]["derive"]
        if any(d["pad"]):
            c = copy.deepcopy(record)
            c["workload"]["dst"]["derive"]["pad"] = [0, 0, 0, 0]
            yield c
        if d["zoom"] != 1.0:
            c = copy.deepcopy(record)
            c["workload"]["dst"]["derive"]["zoom"] = 1.0
            yield c
