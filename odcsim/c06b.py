"""C06 layer B: the real ``mpu_write`` dask graph executed by DaskSim."""

from __future__ import annotations

import random
from typing import Any, List, Optional

from .c06 import PROP, HdrFtr, RecWriter, _RUN_COUNTER, _mk_chunks, _outcome, check_history, chunk_bytes
from .core import Chooser, Digest, HarnessError, Outcome, exc_to_violation
from .dasksim import DaskSim
from .kernel import Deadlock, Kernel, activate


class ChunkSrc:
    """Task producing the chunks of one partition (pure)."""

    def __init__(self, sizes: List[int], cid0: int, kind: str = "bytes"):
        self.sizes, self.cid0, self.kind = list(sizes), cid0, kind

    def __call__(self):
        from .c06 import payload

        pool: dict = {}
        return [(payload(chunk_bytes(self.cid0 + j, sz), self.kind, pool), self.cid0 + j) for j, sz in enumerate(self.sizes)]

    def __dask_tokenize__(self):
        return ("odcsim.ChunkSrc", tuple(self.sizes), self.cid0, self.kind)


def execute(record: dict, rng: Optional[random.Random]) -> Outcome:
    # pylint: disable=too-many-locals
    import dask
    from dask.bag import Bag
    from dask.highlevelgraph import HighLevelGraph
    from odc.geo.cog import _mpu as M

    cfg = record["config"]
    dcfg = cfg.get("dask") or {}
    subs = record["workload"]["subs"]
    ch = Chooser(rng, record.get("schedule"), record.get("faults"), cfg.get("policy"))
    log = Digest()
    _RUN_COUNTER[0] += 1
    wid = _RUN_COUNTER[0]
    w = RecWriter(wid, cfg["mn"], cfg["min_part"], cfg["max_part"])
    write = w if cfg.get("writer", True) else None
    nh, nf = cfg.get("nh"), cfg.get("nf")
    hdr = HdrFtr("h", nh, wid) if nh else None
    ftr = HdrFtr("f", nf, wid) if nf else None
    _, stream, exp_obs = _mk_chunks(subs)
    full = (b"H" * nh if nh else b"") + stream + (b"F" * nf if nf else b"")
    probes = {"layerB_runs": 1, "layerB_fold_depth_gt1": 0, "layerB_parallel_writer_calls": 0, "layerB_line_preemption": 0}

    bags = []
    cid = 0
    for s, parts in enumerate(subs):
        name = f"chunks{s}-{wid:032x}"
        dsk = {}
        for p, sizes in enumerate(parts):
            dsk[(name, p)] = (ChunkSrc(sizes, cid, cfg.get("payload", "bytes")),)
            cid += len(sizes)
        if len(parts) > 4:
            probes["layerB_fold_depth_gt1"] = 1
        bags.append(Bag(HighLevelGraph.from_collections(name, dsk, dependencies=[]), name, len(parts)))

    workers = dcfg.get("workers", 1)
    # worker threads are pre-empted at the writer seams only, or ("trace": "lines") at every line of _mpu.py as well:
    # state shared between tasks that looks private (module-level scratch, objects aliased between partitions) only
    # shows when one MPU op is interleaved with another
    tfiles = (M.__file__,) if dcfg.get("trace") == "lines" else ()
    kernel = Kernel(trace_files=tfiles) if workers > 1 else None
    if kernel is not None and tfiles:
        probes["layerB_line_preemption"] = 1
    sim = DaskSim(
        ch,
        log,
        workers=workers,
        transport=cfg.get("transport", 0.0),
        task_transport=dcfg.get("task_transport", False),
        recompute=0.2 if dcfg.get("recompute") else 0.0,
        pure=lambda c, data, value: str(c[0]).startswith("chunks"),
        stall=dcfg.get("stall", 0.0),
        kernel=kernel,
        real=dcfg.get("real"),
    )
    v = None
    rr = None
    try:
        if kernel is not None:
            activate(kernel)
        fut = M.mpu_write(
            bags if len(bags) > 1 or rng_bit(cfg) else bags[0],
            write,
            mk_header=hdr,
            mk_footer=ftr,
            writes_per_chunk=cfg["wpc"],
            spill_sz=cfg["spill"],
        )
        (rr,) = dask.compute(fut, scheduler=sim, optimize_graph=dcfg.get("optimize", True))
    except HarnessError:
        raise
    except Deadlock as e:
        raise HarnessError(f"C06 layer B: {e}") from e
    except Exception as e:  # pylint: disable=broad-except
        v = exc_to_violation(PROP, "O6.6", e, extra={"layer": "B"})
    finally:
        if kernel is not None:
            ch.count("preemption", kernel.switches)  # context switches between worker threads actually taken
            kernel.shutdown()
            activate(None)
    if v is None:
        if write is None:
            got = bytes(getattr(rr, "left_data", b"")) + bytes(getattr(rr, "data", b""))
            probes["no_writer_stream_ok"] = int(got == full)
        else:
            v = check_history(w, full, exp_obs, hdr, ftr, rr, cfg)
    for part, data in w.calls:
        log.add("w", part, len(data))
    if sim.max_parallel > 1:
        probes["layerB_parallel_writer_calls"] = 1
    out = _outcome(v, log, ch, cfg, subs, {("dask", 0): tuple(sim.order)}, probes, sim.steps, w)
    out.sample["layer_B"] = {"tasks": sim.ntasks, "layers": sim.layers, "order_head": [list(c) for c in sim.order[:30]], "unpicklable": sim.unpicklable}
    return out


def rng_bit(cfg: dict) -> bool:
    """Single bag passed as a list or bare: both spellings of the API are exercised."""
    return bool((cfg["mn"] + cfg["wpc"] + cfg["spill"]) % 2)
