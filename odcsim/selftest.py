"""Self-tests of the machinery (never part of a verdict).

selftest-determinism [n]   every engine: n run indices executed (a) in index order under
                           PYTHONHASHSEED=0, (b) in reverse order under another hash seed in a
                           fresh interpreter, (c) spread over a pool of forked workers; the
                           event-log digests and violation signatures must be identical, and each
                           run replayed from its own recorded schedule must reproduce its digest.
selftest-conformance       fake distributed primitives vs a real in-process cluster.
selftest-mutants [ids...]  sensitivity: see odcsim/mutants.py
"""

from __future__ import annotations

import json
import os
import random
import subprocess
import sys
from typing import Any, Dict, List

from . import core

PROPS = ["C06", "C13", "C18", "C05", "C19"]
DEFAULT_N = {"C06": 1500, "C13": 120, "C18": 600, "C05": 100, "C19": 150}


def _digests(prop: str, indices: List[int], base_seed: int, check_replay: bool) -> Dict[int, Any]:
    from . import bootstrap

    bootstrap.boot()
    engine = core.load_engine(prop)
    if hasattr(engine, "parent_init"):
        engine.parent_init("quick", {})
    if hasattr(engine, "worker_init"):
        engine.worker_init("quick", {})
    out: Dict[int, Any] = {}
    for i in indices:
        seed = core.run_seed(base_seed, prop, i)
        rec = engine.generate(random.Random(seed), "quick")
        o = core.execute_generate(engine, rec, seed)
        entry = {"digest": o.digest, "viol": list(o.key()) if o.key() else None}
        if check_replay:
            o2 = core.execute_replay(engine, core.with_schedule(rec, o))
            entry["replay_ok"] = (o2.digest == o.digest) and (o2.key() == o.key())
        out[i] = entry
    return out


def _child(argv: List[str]) -> int:
    prop, order, n, base_seed, check_replay = argv[0], argv[1], int(argv[2]), int(argv[3]), argv[4] == "1"
    idx = list(range(n))
    if order == "rev":
        idx.reverse()
    res = _digests(prop, idx, base_seed, check_replay)
    print("DIGESTS " + json.dumps(res))
    return 0


def _spawn(prop: str, order: str, n: int, base_seed: int, hashseed: str, check_replay: bool) -> Dict[str, Any]:
    env = dict(os.environ)
    env["PYTHONHASHSEED"] = hashseed
    main = os.path.join(os.path.dirname(os.path.abspath(__file__)), "main.py")
    r = subprocess.run([sys.executable, main, "selftest-child", prop, order, str(n), str(base_seed), "1" if check_replay else "0"], env=env, capture_output=True, text=True, timeout=3000)
    for line in r.stdout.splitlines():
        if line.startswith("DIGESTS "):
            return json.loads(line[8:])
    raise core.HarnessError(f"selftest child failed for {prop}/{order}: rc={r.returncode}\n{r.stdout[-1500:]}\n{r.stderr[-3000:]}")


def _pool_part(args):
    prop, idx, base_seed = args
    return _digests(prop, idx, base_seed, False)


def determinism(argv: List[str]) -> int:
    from concurrent.futures import ProcessPoolExecutor
    import multiprocessing

    props = [a for a in argv if a in PROPS] or [p for p in PROPS if _has_engine(p)]
    scale = next((float(a) for a in argv if a.replace(".", "", 1).isdigit()), 1.0)
    base_seed = int(os.environ.get("VERIF_SEED", "777"))
    bad = 0
    for prop in props:
        n = max(10, int(DEFAULT_N[prop] * scale))
        jobs = {}
        with ProcessPoolExecutor(max_workers=2) as ex:
            jobs["fwd"] = ex.submit(_spawn, prop, "fwd", n, base_seed, "0", True)
            jobs["rev"] = ex.submit(_spawn, prop, "rev", n, base_seed, "4242", False)
            a = jobs["fwd"].result()
            b = jobs["rev"].result()
        from . import bootstrap

        bootstrap.boot()
        chunks = [list(range(s, n, 5)) for s in range(5)]
        with ProcessPoolExecutor(max_workers=5, mp_context=multiprocessing.get_context("fork")) as ex:
            parts = list(ex.map(_pool_part, [(prop, c, base_seed) for c in chunks]))
        c: Dict[str, Any] = {}
        for p in parts:
            c.update({str(k): v for k, v in p.items()})
        diffs = []
        replay_bad = []
        for i in range(n):
            k = str(i)
            da_, db, dc = a[k], b[k], c[k]
            if not (da_["digest"] == db["digest"] == dc["digest"] and da_["viol"] == db["viol"] == dc["viol"]):
                diffs.append((i, da_, db, dc))
            if not da_.get("replay_ok", True):
                replay_bad.append(i)
        nviol = sum(1 for v in a.values() if v["viol"])
        print(f"[selftest-determinism] {prop}: {n} indices x (in-order hashseed 0 | reverse hashseed 4242 | 5 forked workers): {len(diffs)} digest differences, {len(replay_bad)} replay mismatches, {nviol} runs with a violation")
        for d in diffs[:5]:
            print("   DIFF", d)
        if replay_bad:
            print("   REPLAY-MISMATCH at indices", replay_bad[:10])
        bad += len(diffs) + len(replay_bad)
    print("selftest-determinism:", "OK" if not bad else f"FAILED ({bad})")
    return 0 if not bad else core.EXIT_HARNESS


def _has_engine(prop: str) -> bool:
    try:
        import importlib.util

        return importlib.util.find_spec(core._ENGINES[prop]) is not None  # pylint: disable=protected-access
    except Exception:  # pylint: disable=broad-except
        return False


def unit(argv: List[str]) -> int:
    """Small assertions about the machinery itself (chooser replay semantics, schedule
    encoding, cooperative locks and timers, the id() model, the S3 fake's rules)."""
    import threading

    from . import bootstrap

    bootstrap.boot()
    from . import fakes
    from . import kernel as K
    from .c19 import SimIds

    n = 0

    def ok(cond: bool, what: str) -> None:
        nonlocal n
        n += 1
        if not cond:
            raise AssertionError(what)

    # schedule encoding round trip
    ev = [("run", "T0")] * 3 + [("run", "T1")] + [("a", 0, 1)] + [("run", "T0")]
    ok(core.expand_schedule(core.compress_schedule(ev)) == ev, "RLE round trip")
    # skip semantics: entries that are not enabled are skipped, exhausted list -> canonical first
    ch = core.Chooser(None, [[1, "x"], [1, "b"], [2, "a"]], [])
    ok(ch.choose([("a",), ("b",)]) == ("b",), "earliest enabled unconsumed entry")
    ok(ch.choose([("a",), ("c",)]) == ("a",), "next entry")
    ok(ch.choose([("c",), ("a",)]) == ("a",), "duplicate entries are consumed one by one")
    ok(ch.choose([("c",), ("d",)]) == ("c",), "nothing enabled in the list: canonical first")
    # generate mode records what replay mode reproduces
    g = core.Chooser(random.Random(5), policy={"kind": "uniform"})
    picks = [g.choose([("e", i) for i in range(4)]) for _ in range(20)]
    r = core.Chooser(None, core.compress_schedule(g.schedule_out), [])
    ok([r.choose([("e", i) for i in range(4)]) for _ in range(20)] == picks, "replay reproduces generate")
    # faults: repeated decision points are distinct decisions
    g = core.Chooser(random.Random(1))
    fired = [g.fault("transport", ("edge", 1), 0.5) for _ in range(12)]
    r = core.Chooser(None, [], g.faults_out)
    ok([r.fault("transport", ("edge", 1), 0.5) for _ in range(12)] == fired, "fault occurrences replay")
    # cooperative lock + baton kernel: mutual exclusion, blocked threads are not runnable, deadlock detection
    k = K.Kernel()
    K.activate(k)
    lock = K.CoopLock(False)
    trace: List[str] = []

    def worker(name: str):
        with lock:
            trace.append(name + "+")
            K.seam(("inside", name))
            trace.append(name + "-")

    try:
        k.spawn("A", lambda: worker("A"))
        k.spawn("B", lambda: worker("B"))
        k.step("A")  # A takes the lock and parks at the seam
        k.step("B")  # B blocks on the lock
        ok(k.runnable() == ["A"], "blocked thread is not runnable")
        K.run_threads(k, core.Chooser(random.Random(0)))
        ok(trace == ["A+", "A-", "B+", "B-"], f"mutual exclusion {trace}")
        l1, l2 = K.CoopLock(False), K.CoopLock(False)

        def ab():
            with l1:
                K.seam("x")
                with l2:
                    pass

        def ba():
            with l2:
                K.seam("x")
                with l1:
                    pass

        k.spawn("P", ab)
        k.spawn("Q", ba)
        k.step("P")
        k.step("Q")
        try:
            K.run_threads(k, core.Chooser(random.Random(0)))
            ok(False, "deadlock not detected")
        except K.Deadlock:
            ok(True, "deadlock detected")
    finally:
        k.shutdown()
        K.activate(None)
    ok(threading.active_count() <= 3, "simulated threads are unwound")
    # virtual-time timers: Variable.get(timeout) either sees a later set or times out, as the scheduler decides
    for first in ("timeout", "set"):
        k = K.Kernel()
        K.activate(k)
        cl = fakes.FakeCluster()
        cl.default_client = fakes.FakeClient(cl)
        fakes.CLUSTER = cl
        out: Dict[str, Any] = {}

        def getter():
            try:
                out["v"] = fakes.FakeVariable("v").get(0.1)
            except TimeoutError:
                out["v"] = "timeout"

        try:
            k.spawn("G", getter)
            k.spawn("S", lambda: fakes.FakeVariable("v").set("U1"))
            k.step("G")  # at the var.get seam
            k.step("G")  # unset: waits with a deadline
            ok(k.timers() == ["G"] and k.runnable() == ["S"], "waiter has a timer and is not runnable")
            if first == "timeout":
                k.fire_timeout("G")
                ok(k.now == 0.1, "virtual clock advanced to the deadline")
            K.run_threads(k, core.Chooser(None, [], []))
            ok(out["v"] == ("timeout" if first == "timeout" else "U1"), f"get outcome {out}")
        finally:
            k.shutdown()
            K.activate(None)
            fakes.CLUSTER = None

    # the id() model: unique among live objects, reuse only of dead addresses, only when the chooser says so
    class H:  # minimal stand-in for a History
        def __init__(self, rng):
            self.ch = core.Chooser(rng)
            self.steps_done = 0
            self.probes = {"id_reuse_observed": 0, "orphan_pyproj_object_died": 0}

    class Obj:
        pass

    h = H(random.Random(3))
    sim = SimIds(h)
    objs = [Obj() for _ in range(50)]
    ids = [sim(o) for o in objs]
    ok(len(set(ids)) == 50 and [sim(o) for o in objs] == ids, "stable and unique while alive")
    dead = set(ids[:25])
    del objs[:25]
    fresh = [Obj() for _ in range(60)]
    ids2 = [sim(o) for o in fresh]
    live = ids[25:] + ids2
    ok(len(set(live)) == len(live), "never two live objects with one address")
    ok(set(ids2) & dead and h.probes["id_reuse_observed"] == len(set(ids2) & dead), "dead addresses are reused, and counted")
    ok(not (set(ids2) - dead) & set(ids), "only dead addresses are reused")
    # S3 fake rules
    s3 = fakes.FakeS3(min_part_size=5)
    u = s3.create_multipart_upload(Bucket="b", Key="k")["UploadId"]
    e1 = s3.upload_part(PartNumber=1, Body=b"12345", Bucket="b", Key="k", UploadId=u)["ETag"]
    e2 = s3.upload_part(PartNumber=2, Body=b"6", Bucket="b", Key="k", UploadId=u)["ETag"]
    for bad, what in (
        (lambda: s3.upload_part(PartNumber=1, Body=b"x", Bucket="b", Key="other", UploadId=u), "foreign key"),
        (lambda: s3.upload_part(PartNumber=10001, Body=b"x", Bucket="b", Key="k", UploadId=u), "part number range"),
        (lambda: s3.complete_multipart_upload(Bucket="b", Key="k", UploadId=u, MultipartUpload={"Parts": [{"PartNumber": 2, "ETag": e2}, {"PartNumber": 1, "ETag": e1}]}), "part order"),
        (lambda: s3.complete_multipart_upload(Bucket="b", Key="k", UploadId=u, MultipartUpload={"Parts": [{"PartNumber": 1, "ETag": e2}]}), "etag"),
        (lambda: s3.complete_multipart_upload(Bucket="b", Key="k", UploadId="U99", MultipartUpload={"Parts": []}), "unknown upload"),
    ):
        try:
            bad()
            ok(False, f"S3 fake accepted: {what}")
        except core.ServiceRejection:
            ok(True, what)
    s3.complete_multipart_upload(Bucket="b", Key="k", UploadId=u, MultipartUpload={"Parts": [{"PartNumber": 1, "ETag": e1}, {"PartNumber": 2, "ETag": e2}]})
    ok(s3.objects[("b", "k")] == b"123456", "object is the concatenation in part order")
    u2 = s3.create_multipart_upload(Bucket="b", Key="k2")["UploadId"]
    s3.upload_part(PartNumber=1, Body=b"1", Bucket="b", Key="k2", UploadId=u2)
    e = s3.upload_part(PartNumber=2, Body=b"22222", Bucket="b", Key="k2", UploadId=u2)["ETag"]
    try:
        s3.complete_multipart_upload(Bucket="b", Key="k2", UploadId=u2, MultipartUpload={"Parts": [{"PartNumber": 1, "ETag": fakes.FakeS3._etag(1, b"1")}, {"PartNumber": 2, "ETag": e}]})
        ok(False, "EntityTooSmall not enforced")
    except core.ServiceRejection:
        ok(True, "EntityTooSmall")
    # in-flight Variable.delete(): takes effect when the scheduler delivers it, not when it is sent
    for order in ("deliver-first", "set-first"):
        cl = fakes.FakeCluster()
        cl.default_client = fakes.FakeClient(cl, "c0")
        cl.delete_in_flight = lambda name: True
        fakes.CLUSTER = cl
        k = K.Kernel()
        K.activate(k)
        try:
            cl.vars["v"] = "U1"
            k.spawn("A", lambda: fakes.FakeVariable("v").delete())
            k.step("A")  # parks at the delete seam
            k.step("A")  # sends the message and finishes; the message is a thread of its own now
            ok("v" in cl.vars and any(n_.startswith("net.del") for n_ in k.threads), "delete sent, not yet applied")
            net = next(n_ for n_ in k.threads if n_.startswith("net.del"))
            if order == "set-first":
                cl.vars["v"] = "U2"  # a later upload publishes its id before the old delete arrives
            k.step(net)  # parks at the delivery seam
            k.step(net)
            ok("v" not in cl.vars, f"delivery removes the variable, whatever it holds by then ({order})")
        finally:
            k.shutdown()
            K.activate(None)
            fakes.CLUSTER = None
    # canonical task names: structurally identical sub-graphs are told apart by the requested key they feed,
    # and chunks of an engine's source array are named after what consumes them, whatever dask called them
    import dask
    from dask._task_spec import Task, TaskRef

    from .dasksim import DaskSim

    def mk(names):
        a, b, sa, sb = names
        return {(sa, 0): Task((sa, 0), int, 1), (sb, 0): Task((sb, 0), int, 2), (a, 0): Task((a, 0), abs, TaskRef((sa, 0))), (b, 0): Task((b, 0), abs, TaskRef((sb, 0)))}

    orders = []
    for names in (("work-" + "a" * 32, "work-" + "b" * 32, "pix-astype-" + "c" * 32, "pix-astype-astype-" + "d" * 32), ("work-" + "f" * 32, "work-" + "e" * 32, "pix-" + "9" * 32, "pix-astype-" + "8" * 32)):
        sim_ = DaskSim(core.Chooser(None, [], []), core.Digest())
        dsk = mk(names)
        got = sim_(dsk, [(names[0], 0), (names[1], 0)])
        ok(got == [1, 2], "DaskSim result")
        orders.append(list(sim_.order))
    ok(orders[0] == orders[1], f"canonical order independent of tokens and of fused-name spelling: {orders}")
    print(f"selftest-unit: OK - {n} assertions")
    return 0


def main(argv: List[str]) -> int:
    cmd = argv[0]
    if cmd == "selftest-unit":
        return unit(argv[1:])
    if cmd == "selftest-child":
        return _child(argv[1:])
    if cmd == "selftest-determinism":
        return determinism(argv[1:])
    if cmd == "selftest-conformance":
        from . import conformance

        return conformance.main(argv[1:])
    if cmd == "selftest-daskconf":
        from . import daskconf

        return daskconf.main(argv[1:])
    if cmd == "selftest-mutants":
        from . import mutants

        return mutants.main(argv[1:])
    print(__doc__)
    return 2
