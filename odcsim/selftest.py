"""Self-tests of the machinery (never part of a verdict).

selftest-determinism [n]   every engine: n run indices executed (a) in index order under
                           PYTHONHASHSEED=0, (b) in reverse order under another hash seed in a
                           fresh interpreter, (c) spread over a pool of forked workers; the
                           event-log digests and violation signatures must be identical, and each
                           run replayed from its own recorded schedule must reproduce its digest.
selftest-conformance       fake distributed primitives vs a real in-process cluster.
selftest-mutants [ids...]  sensitivity: see odcsim/mutants.py
"""

from __future__ import annotations

import json
import os
import random
import subprocess
import sys
from typing import Any, Dict, List

from . import core

PROPS = ["C06", "C13", "C18", "C05", "C19"]
DEFAULT_N = {"C06": 1500, "C13": 120, "C18": 600, "C05": 100, "C19": 150}


def _digests(prop: str, indices: List[int], base_seed: int, check_replay: bool) -> Dict[int, Any]:
    from . import bootstrap

    bootstrap.boot()
    engine = core.load_engine(prop)
    if hasattr(engine, "parent_init"):
        engine.parent_init("quick", {})
    if hasattr(engine, "worker_init"):
        engine.worker_init("quick", {})
    out: Dict[int, Any] = {}
    for i in indices:
        seed = core.run_seed(base_seed, prop, i)
        rec = engine.generate(random.Random(seed), "quick")
        o = core.execute_generate(engine, rec, seed)
        entry = {"digest": o.digest, "viol": list(o.key()) if o.key() else None}
        if check_replay:
            o2 = core.execute_replay(engine, core.with_schedule(rec, o))
            entry["replay_ok"] = (o2.digest == o.digest) and (o2.key() == o.key())
        out[i] = entry
    return out


def _child(argv: List[str]) -> int:
    prop, order, n, base_seed, check_replay = argv[0], argv[1], int(argv[2]), int(argv[3]), argv[4] == "1"
    idx = list(range(n))
    if order == "rev":
        idx.reverse()
    res = _digests(prop, idx, base_seed, check_replay)
    print("DIGESTS " + json.dumps(res))
    return 0


def _spawn(prop: str, order: str, n: int, base_seed: int, hashseed: str, check_replay: bool) -> Dict[str, Any]:
    env = dict(os.environ)
    env["PYTHONHASHSEED"] = hashseed
    main = os.path.join(os.path.dirname(os.path.abspath(__file__)), "main.py")
    r = subprocess.run([sys.executable, main, "selftest-child", prop, order, str(n), str(base_seed), "1" if check_replay else "0"], env=env, capture_output=True, text=True, timeout=3000)
    for line in r.stdout.splitlines():
        if line.startswith("DIGESTS "):
            return json.loads(line[8:])
    raise core.HarnessError(f"selftest child failed for {prop}/{order}: rc={r.returncode}\n{r.stdout[-1500:]}\n{r.stderr[-3000:]}")


def _pool_part(args):
    prop, idx, base_seed = args
    return _digests(prop, idx, base_seed, False)


def determinism(argv: List[str]) -> int:
    from concurrent.futures import ProcessPoolExecutor
    import multiprocessing

    props = [a for a in argv if a in PROPS] or [p for p in PROPS if _has_engine(p)]
    scale = next((float(a) for a in argv if a.replace(".", "", 1).isdigit()), 1.0)
    base_seed = int(os.environ.get("VERIF_SEED", "777"))
    bad = 0
    for prop in props:
        n = max(10, int(DEFAULT_N[prop] * scale))
        jobs = {}
        with ProcessPoolExecutor(max_workers=2) as ex:
            jobs["fwd"] = ex.submit(_spawn, prop, "fwd", n, base_seed, "0", True)
            jobs["rev"] = ex.submit(_spawn, prop, "rev", n, base_seed, "4242", False)
            a = jobs["fwd"].result()
            b = jobs["rev"].result()
        from . import bootstrap

        bootstrap.boot()
        chunks = [list(range(s, n, 5)) for s in range(5)]
        with ProcessPoolExecutor(max_workers=5, mp_context=multiprocessing.get_context("fork")) as ex:
            parts = list(ex.map(_pool_part, [(prop, c, base_seed) for c in chunks]))
        c: Dict[str, Any] = {}
        for p in parts:
            c.update({str(k): v for k, v in p.items()})
        diffs = []
        replay_bad = []
        for i in range(n):
            k = str(i)
            da_, db, dc = a[k], b[k], c[k]
            if not (da_["digest"] == db["digest"] == dc["digest"] and da_["viol"] == db["viol"] == dc["viol"]):
                diffs.append((i, da_, db, dc))
            if not da_.get("replay_ok", True):
                replay_bad.append(i)
        nviol = sum(1 for v in a.values() if v["viol"])
        print(f"[selftest-determinism] {prop}: {n} indices x (in-order hashseed 0 | reverse hashseed 4242 | 5 forked workers): {len(diffs)} digest differences, {len(replay_bad)} replay mismatches, {nviol} runs with a violation")
        for d in diffs[:5]:
            print("   DIFF", d)
        if replay_bad:
            print("   REPLAY-MISMATCH at indices", replay_bad[:10])
        bad += len(diffs) + len(replay_bad)
    print("selftest-determinism:", "OK" if not bad else f"FAILED ({bad})")
    return 0 if not bad else core.EXIT_HARNESS


def _has_engine(prop: str) -> bool:
    try:
        import importlib.util

        return importlib.util.find_spec(core._ENGINES[prop]) is not None  # pylint: disable=protected-access
    except Exception:  # pylint: disable=broad-except
        return False


def main(argv: List[str]) -> int:
    cmd = argv[0]
    if cmd == "selftest-child":
        return _child(argv[1:])
    if cmd == "selftest-determinism":
        return determinism(argv[1:])
    if cmd == "selftest-conformance":
        from . import conformance

        return conformance.main(argv[1:])
    if cmd == "selftest-mutants":
        from . import mutants

        return mutants.main(argv[1:])
    print(__doc__)
    return 2
