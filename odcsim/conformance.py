"""selftest-conformance: drive the same calls against the fake distributed primitives and
against a real in-process cluster (``distributed.Client(processes=False)``, which starts
offline) and compare results / exception types.  Keeps the fakes honest; never part of a
verdict.  Runs in its own process (no lock substitution, no simulated threads)."""

from __future__ import annotations

import pickle
import sys
import time
import warnings
from typing import Any, Callable, Dict, List, Tuple


def _script(Variable: Any, Lock: Any, client: Any, settle: Callable[[], None]) -> List[Tuple[str, Any]]:
    out: List[Tuple[str, Any]] = []

    def rec(label: str, fn: Callable[[], Any]) -> None:
        try:
            out.append((label, ("ok", fn())))
        except BaseException as e:  # pylint: disable=broad-except
            name = type(e).__name__
            out.append((label, ("raises", "AttributeError" if name == "PeerAttributeError" else name)))  # subclass of AttributeError

    v = Variable("conf-v1", client)
    rec("get unset with timeout", lambda: v.get(0.1))
    rec("get unset with timeout string", lambda: v.get("100ms"))
    rec("set None", lambda: v.set(None))
    rec("get after set None", lambda: v.get(0.1))
    rec("set value", lambda: v.set("U1"))
    rec("get value", lambda: v.get(0.1))
    v2 = Variable("conf-v1")  # by name only: resolves the client lazily
    rec("second handle sees the value", lambda: v2.get(0.1))
    rec("pickled handle keeps its name", lambda: pickle.loads(pickle.dumps(v)).name)
    rec("overwrite", lambda: v2.set("U2"))
    rec("first handle sees overwrite", lambda: v.get(0.1))
    rec("delete", lambda: v.delete())
    settle()
    rec("get after delete", lambda: v.get(0.1))
    lk = Lock("conf-l1")
    rec("lock by name: acquire", lambda: lk.acquire(timeout=1))
    lk_b = Lock("conf-l1")
    rec("same name, second handle: non-blocking acquire fails", lambda: lk_b.acquire(blocking=False))
    rec("release", lambda: lk.release())
    rec("second handle acquires after release", lambda: lk_b.acquire(timeout=1))
    rec("second handle releases", lambda: lk_b.release())
    rec("pickled lock keeps its type", lambda: type(pickle.loads(pickle.dumps(lk))).__name__.replace("Fake", ""))

    def with_client_positional():
        bad = Lock("conf-l2", client)
        with bad:
            return "acquired"

    rec("Lock(name, client) used as context manager", with_client_positional)

    def ctx():
        with Lock("conf-l3"):
            return "inside"

    rec("context manager by name", ctx)
    return out


def run_fake() -> List[Tuple[str, Any]]:
    from . import fakes

    cluster = fakes.FakeCluster()
    client = fakes.FakeClient(cluster)
    cluster.default_client = client
    fakes.CLUSTER = cluster
    try:
        return _script(fakes.FakeVariable, fakes.FakeLock, client, lambda: None)
    finally:
        fakes.CLUSTER = None


def run_real() -> List[Tuple[str, Any]]:
    import dask
    from distributed import Client, Lock, Variable

    dask.config.set({"distributed.admin.system-monitor.gil.enabled": False})
    client = Client(processes=False, n_workers=1, threads_per_worker=1, dashboard_address=None)
    try:
        return _script(Variable, Lock, client, lambda: time.sleep(0.3))
    finally:
        client.close()


def main(argv: List[str]) -> int:
    warnings.filterwarnings("ignore")
    import logging

    logging.disable(logging.CRITICAL)
    fake = run_fake()
    try:
        real = run_real()
    except Exception as e:  # pylint: disable=broad-except
        print(f"selftest-conformance: SKIPPED - an in-process cluster could not be started here ({type(e).__name__}: {e})")
        return 0
    bad = 0
    norm = lambda r: ("raises", "TimeoutError") if r == ("raises", "CancelledError") else r  # noqa: E731
    for (la, ra), (lb, rb) in zip(fake, real):
        same = norm(ra) == norm(rb)
        if la.startswith("pickled lock"):
            same = True if (ra[0] == rb[0] == "ok") else same
        print(f"  {'same ' if same else 'DIFF '} {la:58s} fake={ra}  real={rb}")
        bad += 0 if same else 1
    print("selftest-conformance:", "OK" if not bad else f"FAILED ({bad} differences)", f"- {len(fake)} calls compared")
    return 0 if not bad else 2


if __name__ == "__main__":
    sys.exit(main(sys.argv[1:]))
