"""C06 -- multi-part assembly preserves the byte stream under any schedule.

Layer A (ProtocolSim): the real per-partition append op, merge-and-spill op, collate op
and finaliser of odc.geo.cog._mpu are driven directly; the scheduler chooses among
append(p) / merge(adjacent segments) / collate / finalise events, which yields an
arbitrary binary bracketing discovered dynamically.

Layer B (DaskSim): the real ``mpu_write`` graph over dask bags, executed by the
scheduler in odcsim.dasksim.

Both layers share the oracles O6.1 - O6.6 (DESIGN.md section 5).
"""

from __future__ import annotations

import copy
import pickle
import random
from typing import Any, Dict, Iterable, List, Optional, Tuple

from .kernel import seam
from .core import H as H_Core
from .core import Chooser, Digest, HarnessError, Outcome, Violation, draw_policy, exc_to_violation

PROP = "C06"
RULE = (
    "each run draws writer limits, spill size, writes-per-chunk, header/footer, 1-4 sub-streams x 1-8 partitions x "
    "1-3 chunks with boundary-biased sizes, a scheduling policy and a transport probability; layer A drives the real "
    "append/merge/collate/finalise ops with a dynamically chosen bracketing, layer B runs the real mpu_write dask graph "
    "under DaskSim. A run is non-trivial if it performed at least one merge or held >=2 chunks; two runs are distinct "
    "if (limits, spill, wpc, header/footer sizes, chunk sizes, merge-tree shape / task order, transported edges) differ."
)
DISTINCT_MEASURE = "hash of (configuration, chunk sizes, merge-tree bracketing or DaskSim task order, transported edges)"
COMPONENTS_REAL = [
    "odc.geo.cog._mpu: MPUChunk (append/merge/flush_rhs/flush/maybe_write/gen_bunch/from_dask_bag/collate_substreams), _mpu_append_chunks_op, _merge_and_spill_op, _mpu_collate_op, _finalizer_dask_op, mpu_write",
    "dask.bag graph construction and optimisation (layer B)",
    "pickle/cloudpickle serialisation of MPUChunk values and tasks (transport fault)",
]
COMPONENTS_STUB = ["PartsWriter (recording writer with configurable limits)", "dask scheduler (DaskSim, layer B)"]
HAZARD_PROBES = ['layerA_unavailable_skipped']
ASSUMPTIONS = [
    "domain: >=1 chunk per partition; 1 + partitions*writes_per_chunk part ids fit in [min_part, max_part]; spill_sz >= 0",
    "max_write_sz is not part of the statement and is not checked",
    "writer-less mode (write=None) is exercised as a probe only",
]


# --------------------------------------------------------------------------------------
# recording writer (survives pickling through a registry)
# --------------------------------------------------------------------------------------
_WRITERS: Dict[int, "RecWriter"] = {}


def _lookup_writer(wid: int) -> "RecWriter":
    return _WRITERS[wid]


class RecWriter:
    def __init__(self, wid: int, mn: int, min_part: int, max_part: int):
        self.wid = wid
        self.mn, self._min_part, self._max_part = mn, min_part, max_part
        self.calls: List[Tuple[int, bytes]] = []
        self.receipts: List[dict] = []
        self.fin: List[List[dict]] = []
        self.fin_at: List[int] = []
        self.ncopies = 0
        _WRITERS[wid] = self

    min_write_sz = property(lambda s: s.mn)
    max_write_sz = property(lambda s: 1 << 40)
    min_part = property(lambda s: s._min_part)
    max_part = property(lambda s: s._max_part)

    def __call__(self, part: int, data: Any) -> Dict[str, Any]:
        if not isinstance(data, (bytes, bytearray, memoryview)):
            raise TypeError(f"writer got {type(data).__name__}")
        seam(("writer.call", part))
        self.calls.append((part, bytes(data)))
        r = {"PartNumber": part, "ETag": f"e{part}-{len(data)}-{len(self.calls)}"}
        self.receipts.append(r)
        return dict(r)

    def finalise(self, parts: List[Dict[str, Any]]) -> Any:
        seam(("writer.finalise",))
        self.fin.append([dict(p) for p in parts])
        self.fin_at.append(len(self.calls))
        return {"done": self.wid}

    def __reduce__(self):
        self.ncopies += 1
        return (_lookup_writer, (self.wid,))

    def __dask_tokenize__(self):
        return ("odcsim.RecWriter", self.wid, self.mn, self._min_part, self._max_part)


class HdrFtr:
    """mk_header / mk_footer callback that records what it observed."""

    def __init__(self, tag: str, n: int, hid: int):
        self.tag, self.n, self.hid = tag, n, hid
        self.seen: List[List[Tuple[int, Any]]] = []
        _HF[(hid, tag)] = self

    def __call__(self, observed, **kw):
        self.seen.append([(int(sz), cid) for sz, cid in observed])
        return (b"H" if self.tag == "h" else b"F") * self.n

    def __reduce__(self):
        return (_lookup_hf, (self.hid, self.tag))

    def __dask_tokenize__(self):
        return ("odcsim.HdrFtr", self.tag, self.n, self.hid)


_HF: Dict[Tuple[int, str], HdrFtr] = {}


def _lookup_hf(hid: int, tag: str) -> HdrFtr:
    return _HF[(hid, tag)]


_CHUNK_CACHE: Dict[Tuple[int, int], bytes] = {}


def chunk_bytes(cid: int, sz: int) -> bytes:
    """Bytes unique to chunk ``cid`` (any misplaced byte is attributable)."""
    k = (cid, sz)
    b = _CHUNK_CACHE.get(k)
    if b is None:
        b = bytes(((cid * 37 + j * 11 + 1) % 251) for j in range(sz))
        if len(_CHUNK_CACHE) < 20000:
            _CHUNK_CACHE[k] = b
    return b


# --------------------------------------------------------------------------------------
# generation
# --------------------------------------------------------------------------------------
def generate(rng: random.Random, tier: str) -> dict:
    layer = "B" if rng.random() < 0.06 else "A"
    mn = rng.choice([1, 10, 10, 10, 64])
    min_part = rng.choice([1, 1, 1, 2, 7, 0])
    wpc = rng.choice([1, 1, 2, 3, 5])
    spill = rng.choice([0, 1, mn - 1, mn, mn + 1, 2 * mn - 1, 2 * mn, 3 * mn + 1, 5 * mn, 10**9])
    spill = max(0, spill)
    nh = rng.choice([None, None, 1, mn - 1, mn, mn + 3, 3 * mn]) if rng.random() < 0.6 else None
    nf = rng.choice([1, 2, mn, 2 * mn + 1]) if rng.random() < 0.5 else None
    if nh is not None:
        nh = max(1, nh)
    deep = tier == "thorough" and rng.random() < 0.15  # wider ranges: more sub-streams, deeper folds, bigger chunks
    nsub = rng.choice([1, 1, 1, 2, 3, 4]) if not deep else rng.choice([1, 2, 5, 6])
    sizes = [0, 1, mn - 1, mn, mn + 1, 2 * mn - 1, 2 * mn + 1, max(0, spill - 1) % (8 * mn + 1), (spill + 1) % (8 * mn + 1), 5 * mn, 3, 25]
    sizes = [max(0, s) for s in sizes]
    subs = []
    maxp = 8 if layer == "A" else 9
    if deep:
        sizes = sizes + [40 * mn, 17 * mn + 1]
    for _ in range(nsub):
        P = rng.choice([1, 1, 2, 2, 3, 4, 5, 6, maxp]) if not deep else rng.choice([1, 4, 5, 11, 16, 17, 18])
        parts = []
        for _p in range(P):
            nch = rng.choice([1, 1, 1, 2, 3]) if not deep else rng.choice([1, 2, 4, 6])
            parts.append([rng.choice(sizes) for _ in range(nch)])
        subs.append(parts)
    total_p = sum(len(s) for s in subs)
    need = total_p * wpc  # ids min_part+1 .. min_part+need
    slack = rng.choice([0, 0, 1, 1000])
    config = {
        "layer": layer,
        "mn": mn,
        "min_part": min_part,
        "max_part": min_part + need + slack,
        "wpc": wpc,
        "spill": spill,
        "nh": nh,
        "nf": nf,
        "writer": rng.random() > 0.03,
        "payload": rng.choice(["bytes", "bytes", "bytes", "bytearray", "bytearray-reused"]),
        "transport": rng.choice([0.0, 0.0, 0.2, 0.6, 1.0]),
        "policy": draw_policy(rng, groups=list(range(nsub)), horizon=4 * total_p),
    }
    if layer == "B":
        config["dask"] = {
            "workers": rng.choice([1, 1, 2, 3, 4]),
            "optimize": rng.random() < 0.7,
            "task_transport": rng.random() < 0.3,
            "stall": rng.choice([0.0, 0.0, 0.1]),
            "trace": rng.choice(["seams", "lines"]),
        }
    return {"config": config, "workload": {"subs": subs}}


# --------------------------------------------------------------------------------------
# execution
# --------------------------------------------------------------------------------------
_RUN_COUNTER = [0]


def payload(b: bytes, kind: str, pool: Dict[bytes, bytearray]) -> Any:
    """The chunk as the producer hands it over: immutable bytes, a fresh bytearray, or one
    bytearray object handed over every time the same content comes up (zero-size chunks do)."""
    if kind == "bytes":
        return b
    if kind == "bytearray-reused":
        if b not in pool:
            pool[b] = bytearray(b)
        return pool[b]
    return bytearray(b)


def _mk_chunks(subs, kind: str = "bytes") -> Tuple[List[List[List[Tuple[Any, int]]]], bytes, List[Tuple[int, int]]]:
    cid = 0
    out = []
    stream = bytearray()
    obs = []
    pool: Dict[bytes, bytearray] = {}
    for parts in subs:
        sp = []
        for sizes in parts:
            cc = []
            for sz in sizes:
                b = chunk_bytes(cid, sz)
                cc.append((payload(b, kind, pool), cid))
                stream += b
                obs.append((sz, cid))
                cid += 1
            sp.append(cc)
        out.append(sp)
    return out, bytes(stream), obs


def H_(record: dict) -> int:
    return H_Core(str(record["workload"]), str(record["config"].get("spill")))


_LAYER_A_NAMES = ("_mpu_append_chunks_op", "_merge_and_spill_op", "_mpu_collate_op", "_finalizer_dask_op")
_LAYER_A_OK: Optional[bool] = None


def layer_a_available() -> bool:
    """Layer A drives four module-level helpers directly.  If a refactor renamed them the
    property is still decided through the public ``mpu_write`` (layer B) - at a lower rate."""
    global _LAYER_A_OK  # pylint: disable=global-statement
    if _LAYER_A_OK is None:
        from odc.geo.cog import _mpu as M

        _LAYER_A_OK = all(hasattr(M, n) for n in _LAYER_A_NAMES) and hasattr(getattr(M, "MPUChunk", None), "gen_bunch")
    return _LAYER_A_OK


def execute(record: dict, rng: Optional[random.Random]) -> Outcome:
    cfg = record["config"]
    if cfg.get("layer", "A") == "A" and not layer_a_available():
        if H_(record) % 16:  # keep 1 run in 16, as layer B (two orders of magnitude slower)
            return Outcome(None, "skipped", None, stats={"probes": {"layerA_unavailable_skipped": 1}}, cls=None, nontrivial=False)
        record = copy.deepcopy(record)
        record["config"]["layer"] = "B"
        record["config"]["dask"] = {"workers": 1, "optimize": True, "task_transport": False, "stall": 0.0}
        cfg = record["config"]
    if cfg.get("layer", "A") == "B":
        from . import c06b

        return c06b.execute(record, rng)
    return execute_a(record, rng)


def execute_a(record: dict, rng: Optional[random.Random]) -> Outcome:
    # pylint: disable=too-many-locals,too-many-branches,too-many-statements
    from odc.geo.cog import _mpu as M

    cfg = record["config"]
    subs = record["workload"]["subs"]
    ch = Chooser(rng, record.get("schedule"), record.get("faults"), cfg.get("policy"))
    log = Digest()
    _RUN_COUNTER[0] += 1
    wid = _RUN_COUNTER[0]
    w = RecWriter(wid, cfg["mn"], cfg["min_part"], cfg["max_part"])
    has_writer = cfg.get("writer", True)
    write = w if has_writer else None
    spill = cfg["spill"]
    wpc = cfg["wpc"]
    nh, nf = cfg.get("nh"), cfg.get("nf")
    hdr = HdrFtr("h", nh, wid) if nh else None
    ftr = HdrFtr("f", nf, wid) if nf else None
    chunks, stream, exp_obs = _mk_chunks(subs, cfg.get("payload", "bytes"))
    full = (b"H" * nh if nh else b"") + stream + (b"F" * nf if nf else b"")
    probes = {
        "bytearray_payloads": int(cfg.get("payload", "bytes") != "bytes"),
        "merge_rhs_started": 0,
        "merge_lhs_moved_to_left_data": 0,
        "final_partition_wrote_then_received_data": 0,
        "spill_during_collate": 0,
        "left_part_written_at_flush": 0,
        "header_longer_than_min": 0,
        "part_budget_tight": 0,
        "no_writer_stream_ok": 0,
        "spill_below_min_write": 0,
    }
    tp = cfg.get("transport", 0.0)
    steps = 0
    tree: Dict[Tuple[int, int], Any] = {}

    def transport(v, ident):
        if ch.fault("transport", ident, tp):
            return pickle.loads(pickle.dumps(v))
        return v

    try:
        # allocation exactly as mpu_write does it
        if write is None:
            min_part, lhs_keep = 1, 0
        else:
            min_part, lhs_keep = write.min_part, write.min_write_sz
        partId = min_part + 1
        mpus: List[List[Any]] = []
        for si, parts in enumerate(subs):
            final = (ftr is None) and si == len(subs) - 1
            mpus.append(list(M.MPUChunk.gen_bunch(partId, len(parts), writes_per_chunk=wpc, mark_final=final, lhs_keep=lhs_keep)))
            partId += len(parts) * wpc
        if cfg["max_part"] == min_part + sum(len(s) for s in subs) * wpc:
            probes["part_budget_tight"] += 1
        if write is not None and 0 < spill < cfg["mn"]:
            probes["spill_below_min_write"] += 1

        nsub = len(subs)
        seg: List[Dict[int, Tuple[int, Any]]] = [dict() for _ in range(nsub)]  # lo -> (hi, mpu)
        seg_of: List[Dict[int, int]] = [dict() for _ in range(nsub)]
        done_a = [set() for _ in range(nsub)]
        done_m = [set() for _ in range(nsub)]
        collated = nsub == 1
        root = None

        def enabled():
            ev = []
            for s in range(nsub):
                P = len(subs[s])
                ev += [("a", s, p) for p in range(P) if p not in done_a[s]]
                ev += [("m", s, b) for b in range(P - 1) if b not in done_m[s] and b in seg_of[s] and (b + 1) in seg_of[s]]
            return ev

        while True:
            en = enabled()
            if not en:
                break
            ev = ch.choose(en)
            steps += 1
            kind, s, i = ev
            if kind == "a":
                done_a[s].add(i)
                is_final_part = mpus[s][i].is_final
                marks = []

                def feed(cc=chunks[s][i], marks=marks):
                    for c in cc:
                        marks.append(len(w.calls))
                        yield c

                (r,) = M._mpu_append_chunks_op([mpus[s][i]], feed(), write=write, spill_sz=spill)
                if is_final_part and len(marks) > 1 and marks[-1] > marks[0]:
                    probes["final_partition_wrote_then_received_data"] += 1
                r = transport(r, ("a", s, i))
                seg[s][i] = (i, r)
                seg_of[s][i] = i
                tree[(s, i)] = i
                log.add("a", s, i, len(w.calls))
            else:
                done_m[s].add(i)
                lo, lo2 = seg_of[s][i], seg_of[s][i + 1]
                lhs, rhs = seg[s][lo][1], seg[s][lo2][1]
                rhs_started = rhs.started_write
                lhs_started = lhs.started_write
                if rhs_started:
                    probes["merge_rhs_started"] += 1
                r = M._merge_and_spill_op(lhs, rhs, write=write, spill_sz=spill)
                if rhs_started and not lhs_started and len(r.left_data) > 0 and len(r.parts) == len(rhs.parts):
                    probes["merge_lhs_moved_to_left_data"] += 1
                r = transport(r, ("m", s, i))
                hi = seg[s][lo2][0]
                del seg[s][lo2]
                seg[s][lo] = (hi, r)
                for q in range(lo2, hi + 1):
                    seg_of[s][q] = lo
                tree[(s, lo)] = (tree[(s, lo)], tree.pop((s, lo2)))
                log.add("m", s, i, len(w.calls))
        roots = []
        for s in range(nsub):
            if len(seg[s]) != 1:
                raise HarnessError("protocol sim ended with unmerged segments")
            roots.append(seg[s][min(seg[s])][1])
        if nsub == 1:
            root = roots[0]
        else:
            before = len(w.calls)
            root = M._mpu_collate_op(roots, write=write, spill_sz=spill)
            if len(w.calls) > before:
                probes["spill_during_collate"] += 1
            root = transport(root, ("c",))
            steps += 1
            log.add("c", len(w.calls))
        had_left = root.started_write and (len(root.left_data) > 0 or bool(nh))
        rr = M._finalizer_dask_op(root, write=write, mk_header=hdr, mk_footer=ftr)
        steps += 1
        log.add("f", len(w.calls))
        if nh and nh > cfg["mn"]:
            probes["header_longer_than_min"] += 1
        if had_left and write is not None:
            probes["left_part_written_at_flush"] += 1
    except HarnessError:
        raise
    except Exception as e:  # pylint: disable=broad-except
        v = exc_to_violation(PROP, "O6.6", e, extra={"layer": "A"})
        return _outcome(v, log, ch, cfg, subs, tree, probes, steps, w)

    v = None
    if write is None:
        got = bytes(getattr(rr, "left_data", b"")) + bytes(getattr(rr, "data", b""))
        if got == full:
            probes["no_writer_stream_ok"] += 1
    else:
        v = check_history(w, full, exp_obs, hdr, ftr, rr, cfg)
    for part, data in w.calls:
        log.add("w", part, len(data))
    return _outcome(v, log, ch, cfg, subs, tree, probes, steps, w)


def check_history(w: RecWriter, full: bytes, exp_obs, hdr, ftr, rr, cfg) -> Optional[Violation]:
    """History checks O6.1-O6.5 over the writer's call log."""
    ids = [p for p, _ in w.calls]
    if len(set(ids)) != len(ids):
        dup = sorted({i for i in ids if ids.count(i) > 1})
        return Violation(PROP, "O6.2", "duplicate-part-number", {"ids": ids, "dup": dup})
    bad = [i for i in ids if not w.min_part <= i <= w.max_part]
    if bad:
        return Violation(PROP, "O6.2", "part-number-out-of-range", {"ids": ids, "bad": bad, "range": [w.min_part, w.max_part]})
    ordered = sorted(w.calls)
    got = b"".join(d for _, d in ordered)
    if got != full:
        n = next((i for i, (a, b) in enumerate(zip(got, full)) if a != b), min(len(got), len(full)))
        kind = "stream-mismatch" if len(got) == len(full) else ("stream-short" if len(got) < len(full) else "stream-long")
        return Violation(PROP, "O6.1", kind, {"first_diff_at": n, "got_len": len(got), "want_len": len(full), "parts": [(p, len(d)) for p, d in ordered]})
    small = [(p, len(d)) for p, d in ordered[:-1] if len(d) < w.min_write_sz]
    if small:
        return Violation(PROP, "O6.3", "non-last-part-below-min", {"small": small, "min_write_sz": w.min_write_sz, "parts": [(p, len(d)) for p, d in ordered]})
    if len(w.fin) != 1:
        return Violation(PROP, "O6.4", "finalise-count", {"n": len(w.fin)})
    if w.fin_at[0] != len(w.calls):
        return Violation(PROP, "O6.4", "write-after-finalise", {"fin_at": w.fin_at[0], "writes": len(w.calls)})
    fin_ids = [p.get("PartNumber") for p in w.fin[0]]
    if fin_ids != sorted(ids):
        return Violation(PROP, "O6.4", "finalise-parts-order", {"fin": fin_ids, "written": sorted(ids)})
    by_id = {r["PartNumber"]: r for r in w.receipts}
    if any(by_id.get(p.get("PartNumber")) != p for p in w.fin[0]):
        return Violation(PROP, "O6.4", "finalise-receipts-differ", {"fin": w.fin[0]})
    for cb, name in ((hdr, "header"), (ftr, "footer")):
        if cb is None:
            continue
        if len(cb.seen) != 1:
            return Violation(PROP, "O6.5", f"{name}-callback-count", {"n": len(cb.seen)})
        if cb.seen[0] != [tuple(x) for x in exp_obs]:
            return Violation(PROP, "O6.5", f"{name}-observed-list", {"got": cb.seen[0][:20], "want": exp_obs[:20]})
    if rr != {"done": w.wid}:
        return Violation(PROP, "O6.4", "finalise-result-not-returned", {"rr": repr(rr)[:100]})
    return None


def _shape(t) -> str:
    return str(t).replace(" ", "")


def _outcome(v, log: Digest, ch: Chooser, cfg, subs, tree, probes, steps, w: RecWriter) -> Outcome:
    nchunks = sum(len(p) for s in subs for p in s)
    nparts = sum(len(s) for s in subs)
    shape = _shape(sorted(tree.items()))
    cls = (
        cfg["mn"], cfg["min_part"], cfg["max_part"], cfg["wpc"], cfg["spill"], cfg.get("nh"), cfg.get("nf"), cfg.get("writer", True),
        str(subs), shape, tuple(ch.faults_out),
    )
    sample = {
        "config": {k: v_ for k, v_ in cfg.items() if k != "policy"},
        "policy": cfg.get("policy"),
        "workload": {"subs": subs},
        "schedule_head": [list(e) for e in ch.schedule_out[:40]],
        "merge_tree": shape[:300],
        "writer_calls": [(p, len(d)) for p, d in w.calls][:40],
        "faults": [list(f) for f in ch.faults_out[:20]],
    }
    return Outcome(v, log.hex(), ch, stats={"probes": probes}, cls=cls, nontrivial=(nparts > 1 or nchunks > 1), sample=sample, steps=steps)


# --------------------------------------------------------------------------------------
# shrinking
# --------------------------------------------------------------------------------------
def _renumber_drop_partition(sched, s, p, P):
    out = []
    for e in sched:
        e = list(e)
        if len(e) == 4 and e[2] == s:
            _, k, _, i = e
            if k == "a":
                if i == p:
                    continue
                if i > p:
                    e[3] = i - 1
            elif k == "m":
                if i == min(p, P - 2):
                    continue
                if i > p:
                    e[3] = i - 1
        out.append(e)
    return out


def _fix_budget(c: dict) -> None:
    cfg = c["config"]
    need = sum(len(s) for s in c["workload"]["subs"]) * cfg["wpc"]
    cfg["max_part"] = max(cfg["max_part"], cfg["min_part"] + need) if cfg["max_part"] - cfg["min_part"] - need < 0 else cfg["max_part"]


def candidates(record: dict) -> Iterable[dict]:
    # pylint: disable=too-many-branches
    subs = record["workload"]["subs"]
    cfg = record["config"]
    sched = record.get("schedule") or []
    if cfg.get("layer") == "B":  # first try the same workload in the cheaper layer
        c = copy.deepcopy(record)
        c["config"]["layer"] = "A"
        c["config"].pop("dask", None)
        c["schedule"] = []
        c["faults"] = []
        yield c
    # drop a sub-stream
    if len(subs) > 1:
        for s in range(len(subs)):
            c = copy.deepcopy(record)
            del c["workload"]["subs"][s]
            c["schedule"] = [[e[0], e[1], e[2] - (1 if e[2] > s else 0), *e[3:]] for e in map(list, sched) if not (len(e) >= 3 and e[2] == s)]
            c["faults"] = []
            yield c
    # drop a partition
    for s, parts in enumerate(subs):
        P = len(parts)
        if P > 1:
            for p in range(P):
                c = copy.deepcopy(record)
                del c["workload"]["subs"][s][p]
                c["schedule"] = _renumber_drop_partition(sched, s, p, P)
                c["faults"] = []
                yield c
    # drop a chunk
    for s, parts in enumerate(subs):
        for p, sizes in enumerate(parts):
            if len(sizes) > 1:
                for j in range(len(sizes)):
                    c = copy.deepcopy(record)
                    del c["workload"]["subs"][s][p][j]
                    yield c
    # shrink a size
    mn = cfg["mn"]
    for s, parts in enumerate(subs):
        for p, sizes in enumerate(parts):
            for j, sz in enumerate(sizes):
                for nsz in sorted({0, 1, mn, sz // 2, sz - 1}):
                    if 0 <= nsz < sz:
                        c = copy.deepcopy(record)
                        c["workload"]["subs"][s][p][j] = nsz
                        yield c
    # configuration knobs to their defaults
    if cfg.get("payload", "bytes") != "bytes":
        c = copy.deepcopy(record)
        c["config"]["payload"] = "bytes"
        yield c
    for k, simple in (("nh", None), ("nf", None), ("wpc", 1), ("min_part", 1), ("transport", 0.0), ("mn", 1), ("mn", 10)):
        if cfg.get(k) != simple:
            c = copy.deepcopy(record)
            c["config"][k] = simple
            if k == "transport":
                c["faults"] = []
            need = sum(len(s_) for s_ in subs) * c["config"]["wpc"]
            slack = max(0, cfg["max_part"] - cfg["min_part"] - sum(len(s_) for s_ in subs) * cfg["wpc"])
            c["config"]["max_part"] = c["config"]["min_part"] + need + slack
            yield c
    need = sum(len(s_) for s_ in subs) * cfg["wpc"]
    if cfg["max_part"] != cfg["min_part"] + need + 1000:
        c = copy.deepcopy(record)
        c["config"]["max_part"] = cfg["min_part"] + need + 1000
        yield c
    for sp in sorted({0, mn, 10**9, cfg["spill"] // 2}):
        if sp != cfg["spill"] and (sp < cfg["spill"] or sp in (mn,)):
            c = copy.deepcopy(record)
            c["config"]["spill"] = sp
            yield c
    if cfg.get("policy") is not None:
        c = copy.deepcopy(record)
        c["config"]["policy"] = None
        yield c
