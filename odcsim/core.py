"""Kernel shared by all engines: seeds, run records, choosers, batch runner, shrinker,
replay files, known findings, evidence files.

A *run record* is a JSON document {config, workload, schedule, faults}.  ``config`` and
``workload`` are generated up-front from the run's PRNG; ``schedule`` and ``faults`` are
filled in by the ``Chooser`` while the run executes (generate mode) and are consumed with
skip semantics when the record is replayed (replay mode).  Execution is a pure function of
(record, code under test).
"""

from __future__ import annotations

import copy
import faulthandler
import hashlib
import json
import multiprocessing
import os
import random
import sys
import time
import traceback
from concurrent.futures import ProcessPoolExecutor, as_completed
from pathlib import Path
from typing import Any, Callable, Dict, Iterable, List, Optional, Tuple

VERIF_DIR = Path(__file__).resolve().parent.parent
EVIDENCE_DIR = Path(os.environ.get("ODCSIM_EVIDENCE_DIR") or VERIF_DIR / "evidence")
REPLAY_DIR = Path(os.environ.get("ODCSIM_REPLAY_DIR") or VERIF_DIR / "replays")
KNOWN_FINDINGS_FILE = VERIF_DIR / "known_findings.json"

EXIT_OK, EXIT_VIOLATION, EXIT_HARNESS = 0, 1, 2


# --------------------------------------------------------------------------------------
# errors
# --------------------------------------------------------------------------------------
class Violation(Exception):
    """A property violation detected by a monitor or a history check."""

    def __init__(self, prop: str, oracle: str, sig: str, detail: Any = None):
        super().__init__(f"{prop} {oracle} {sig}")
        self.prop, self.oracle, self.sig, self.detail = prop, oracle, sig, detail

    def as_dict(self) -> Dict[str, Any]:
        return {"property": self.prop, "oracle": self.oracle, "sig": self.sig, "detail": jsonable(self.detail)}


class HarnessError(Exception):
    """Something went wrong in the machinery itself; never reported as a violation."""


class ServiceRejection(Exception):
    """Raised by a fake peer (S3) when the code under test sent something the real
    service would reject.  Counts as an exception caused by the code under test."""


# --------------------------------------------------------------------------------------
# small helpers
# --------------------------------------------------------------------------------------
def jsonable(x: Any) -> Any:
    if x is None or isinstance(x, (bool, int, str)):
        return x
    if isinstance(x, float):
        return x if x == x and abs(x) != float("inf") else repr(x)
    if isinstance(x, (bytes, bytearray)):
        return {"bytes": len(x), "sha": hashlib.sha1(bytes(x)).hexdigest()[:12]}
    if isinstance(x, dict):
        return {str(k): jsonable(v) for k, v in x.items()}
    if isinstance(x, (list, tuple, set, frozenset)):
        return [jsonable(v) for v in x]
    try:
        import numpy as np

        if isinstance(x, np.generic):
            return jsonable(x.item())
        if isinstance(x, np.ndarray):
            return {"ndarray": list(x.shape), "dtype": str(x.dtype)}
    except Exception:  # pragma: no cover
        pass
    return repr(x)


def H(*parts: Any) -> int:
    """Stable 63-bit hash of the parts (independent of PYTHONHASHSEED)."""
    h = hashlib.blake2b(repr(parts).encode(), digest_size=8).digest()
    return int.from_bytes(h, "big") >> 1


def run_seed(base_seed: int, prop: str, i: int) -> int:
    return H("run", int(base_seed), prop, int(i))


class Digest:
    """Event log with a running hash.  Nothing here draws from a PRNG or reads a clock."""

    def __init__(self, keep: int = 60):
        self._h = hashlib.blake2b(digest_size=12)
        self.n = 0
        self.head: List[Any] = []
        self.keep = keep

    def add(self, *ev: Any) -> None:
        self._h.update(repr(ev).encode())
        self._h.update(b"\n")
        self.n += 1
        if len(self.head) < self.keep:
            self.head.append(jsonable(ev))

    def hex(self) -> str:
        return self._h.hexdigest()


REPO_PKG_DIR: Optional[str] = None


def repo_pkg_dir() -> str:
    global REPO_PKG_DIR  # pylint: disable=global-statement
    if REPO_PKG_DIR is None:
        import odc.geo

        REPO_PKG_DIR = str(Path(odc.geo.__file__).resolve().parent)
    return REPO_PKG_DIR


HARNESS_DIR = str(Path(__file__).resolve().parent)


def classify_exception(e: BaseException) -> Tuple[str, str]:
    """Return ("repo", signature) when the exception is attributable to the code under
    test, ("harness", description) otherwise.

    Rule (DESIGN §4.7): attributable iff some traceback frame lies under odc/geo/ and the
    innermost frame is not harness code -- or it is a ServiceRejection raised by a fake
    peer on behalf of the real service."""
    tb = traceback.extract_tb(e.__traceback__)
    pkg = repo_pkg_dir()
    repo_frames = [f for f in tb if f.filename.startswith(pkg)]
    inner_is_harness = bool(tb) and tb[-1].filename.startswith(HARNESS_DIR)
    msg = str(e).split("\n")[0][:80]
    if isinstance(e, ServiceRejection):
        where = repo_frames[-1].name if repo_frames else "?"
        return "repo", f"{msg.split(':')[0]}@{where}"
    if isinstance(e, (Violation, HarnessError)):
        return "harness", repr(e)
    if repo_frames and not inner_is_harness:
        f = repo_frames[-1]
        rel = f.filename[len(pkg) + 1 :]
        return "repo", f"{type(e).__name__}@{rel}:{f.name}"
    return "harness", f"{type(e).__name__}: {msg} @ {tb[-1].filename}:{tb[-1].lineno}" if tb else repr(e)


def exc_to_violation(prop: str, oracle: str, e: BaseException, extra: Any = None) -> Violation:
    kind, sig = classify_exception(e)
    if isinstance(e, Violation):
        return e
    if kind != "repo":
        raise HarnessError(f"{sig}\n{''.join(traceback.format_exception(e))[-3000:]}") from e
    tb = traceback.extract_tb(e.__traceback__)
    pkg = repo_pkg_dir()
    frames = [f"{f.filename[len(pkg)+1:]}:{f.name}:{f.lineno}" for f in tb if f.filename.startswith(pkg)][-4:]
    return Violation(prop, oracle, sig, {"exception": type(e).__name__, "message": str(e)[:300], "frames": frames, "extra": extra})


# --------------------------------------------------------------------------------------
# Chooser: the only place where schedule and fault decisions are taken
# --------------------------------------------------------------------------------------
def _tup(x: Any) -> Any:
    return tuple(_tup(v) for v in x) if isinstance(x, (list, tuple)) else x


class Chooser:
    """Decides which enabled event runs next and whether a fault fires.

    generate mode: decisions come from ``rng`` (through a scheduling policy) and are
    appended to ``schedule`` / ``faults``.
    replay mode:   ``schedule`` is a priority list executed with skip semantics; a fault
    fires iff its identity is listed in ``faults``.
    """

    def __init__(self, rng: Optional[random.Random] = None, schedule: Optional[list] = None, faults: Optional[list] = None, policy: Optional[dict] = None):
        self.replay = rng is None
        self.rng = rng
        self.policy = policy or {"kind": "uniform"}
        self.schedule_in: List[Any] = expand_schedule(schedule or [])
        self._consumed = [False] * len(self.schedule_in)
        self._first_unconsumed = 0
        self.faults_in = {_tup(f) for f in (faults or [])}
        self.schedule_out: List[Any] = []
        self.faults_out: List[Any] = []
        self.fault_counts: Dict[str, int] = {}
        self.n_choices = 0
        self.n_nontrivial = 0  # choices among >1 enabled events where a non-canonical one ran
        self._last: Any = None
        self._prio: Dict[Any, float] = {}
        self._asked: Dict[Any, int] = {}

    # ---- schedule ----
    def choose(self, enabled: List[Any]) -> Any:
        """``enabled`` is a list of event identities in canonical order (never a set)."""
        if not enabled:
            raise HarnessError("choose() with nothing enabled")
        self.n_choices += 1
        if self.replay:
            ev = self._choose_replay(enabled)
        else:
            ev = self._choose_policy(enabled)
        ev = _tup(ev)
        if len(enabled) > 1 and ev != _tup(enabled[0]):
            self.n_nontrivial += 1
        self.schedule_out.append(ev)
        self._last = ev
        return ev

    def _choose_replay(self, enabled: List[Any]) -> Any:
        en = {_tup(e) for e in enabled}
        i = self._first_unconsumed
        n = len(self.schedule_in)
        while i < n:
            if not self._consumed[i] and self.schedule_in[i] in en:
                self._consumed[i] = True
                while self._first_unconsumed < n and self._consumed[self._first_unconsumed]:
                    self._first_unconsumed += 1
                return self.schedule_in[i]
            i += 1
        return enabled[0]

    def _choose_policy(self, enabled: List[Any]) -> Any:
        rng = self.rng
        assert rng is not None
        kind = self.policy.get("kind", "uniform")
        if len(enabled) == 1:
            return enabled[0]
        if kind == "uniform":
            return enabled[rng.randrange(len(enabled))]
        if kind == "lifo":  # depth first: prefer the most recently enabled (= last in list)
            return enabled[-1] if rng.random() < 0.85 else enabled[rng.randrange(len(enabled))]
        if kind == "fifo":
            return enabled[0] if rng.random() < 0.85 else enabled[rng.randrange(len(enabled))]
        if kind == "sticky":
            p = self.policy.get("p", 0.1)
            grp = self.policy.get("group")  # function name -> event group (e.g. thread of an event)
            last = self._last
            if last is not None and rng.random() >= p:
                same = [e for e in enabled if _group(e) == _group(last)]
                if same:
                    return same[0]
            return enabled[rng.randrange(len(enabled))]
        if kind == "pct":  # random priorities with d change points
            for e in enabled:
                g = _group(e)
                if g not in self._prio:
                    self._prio[g] = rng.random()
            if self.n_choices in self.policy.get("change_points", ()):
                g = _group(max(enabled, key=lambda e: self._prio[_group(e)]))
                self._prio[g] = -rng.random()
            return max(enabled, key=lambda e: self._prio[_group(e)])
        if kind == "starve":  # never run events of one group while anything else is enabled
            victim = self.policy.get("victim")
            rest = [e for e in enabled if _group(e) != victim]
            pool = rest or enabled
            return pool[rng.randrange(len(pool))]
        if kind == "first":  # run-to-completion in canonical order
            return enabled[0]
        raise HarnessError(f"unknown policy {kind}")

    # ---- faults ----
    def fault(self, kind: str, ident: Any, prob: float) -> bool:
        ident = _tup((kind, *ident)) if isinstance(ident, (list, tuple)) else (kind, ident)
        # the same decision point can be reached more than once (a recomputed task fetches its
        # inputs again): every occurrence is its own decision
        n = self._asked.get(ident, 0)
        self._asked[ident] = n + 1
        if n:
            ident = (*ident, "#", n)
        if self.replay:
            fire = ident in self.faults_in
        else:
            assert self.rng is not None
            fire = prob > 0 and self.rng.random() < prob
        if fire:
            self.faults_out.append(ident)
            self.fault_counts[kind] = self.fault_counts.get(kind, 0) + 1
        return fire

    def count(self, kind: str, n: int = 1) -> None:
        self.fault_counts[kind] = self.fault_counts.get(kind, 0) + n


def expand_schedule(sched: list) -> List[Any]:
    """Stored form: run-length encoded entries ``[count, *event]``."""
    out: List[Any] = []
    for e in sched:
        n, ev = int(e[0]), _tup(e[1:])
        out.extend([ev] * n)
    return out


def compress_schedule(events: list) -> List[list]:
    out: List[list] = []
    for ev in events:
        ev = list(ev)
        if out and out[-1][1:] == ev:
            out[-1][0] += 1
        else:
            out.append([1, *ev])
    return out


def _group(ev: Any) -> Any:
    """Group of an event identity: its second element if present (thread / task layer), else the event."""
    if isinstance(ev, tuple) and len(ev) >= 2:
        return ev[1]
    return ev


def draw_policy(rng: random.Random, groups: Optional[List[Any]] = None, horizon: int = 200) -> dict:
    k = rng.choice(["uniform", "uniform", "lifo", "fifo", "sticky", "sticky", "pct", "starve", "first"])
    if k == "sticky":
        return {"kind": k, "p": rng.choice([0.02, 0.1, 0.5])}
    if k == "pct":
        d = rng.choice([1, 2, 3])
        return {"kind": k, "change_points": sorted(rng.randrange(1, horizon) for _ in range(d))}
    if k == "starve":
        if not groups:
            return {"kind": "uniform"}
        return {"kind": k, "victim": rng.choice(groups)}
    return {"kind": k}


# --------------------------------------------------------------------------------------
# Outcome of one execution
# --------------------------------------------------------------------------------------
class Outcome:
    __slots__ = ("violation", "digest", "schedule", "faults", "stats", "cls", "nontrivial", "sample", "steps", "sim_time")

    def __init__(self, violation: Optional[Violation], digest: str, chooser: Optional[Chooser], stats: Optional[dict] = None, cls: Any = None, nontrivial: bool = True, sample: Any = None, steps: int = 0, sim_time: float = 0.0):
        self.violation = violation
        self.digest = digest
        self.schedule = list(chooser.schedule_out) if chooser else []
        self.faults = list(chooser.faults_out) if chooser else []
        self.stats = stats or {}
        if chooser is not None:
            fc = self.stats.setdefault("faults", {})
            for k, v in chooser.fault_counts.items():
                fc[k] = fc.get(k, 0) + v
        self.cls = cls
        self.nontrivial = nontrivial
        self.sample = sample
        self.steps = steps
        self.sim_time = sim_time

    def key(self) -> Optional[Tuple[str, str]]:
        v = self.violation
        return None if v is None else (v.oracle, v.sig)


class Engine:
    """Interface every property module implements (module-level functions)."""

    PROP: str
    generate: Callable[[random.Random, str], dict]  # (rng, tier) -> record (config, workload)
    execute: Callable[[dict, Optional[random.Random]], Outcome]  # rng given => generate mode
    candidates: Callable[[dict], Iterable[dict]]  # shrink candidates


# --------------------------------------------------------------------------------------
# fork isolation: one run = one child forked from a process that never ran the code under test
# --------------------------------------------------------------------------------------
def fork_call(fn: Callable[..., Any], *args: Any) -> Any:
    """Run ``fn(*args)`` in a forked child and return its (picklable) result.  Module-level
    state of the code under test - wherever it hides: module dicts, decorator closures,
    lazily created locks - is pristine for every run, because the parent never runs it."""
    import pickle

    r, w = os.pipe()
    pid = os.fork()
    if pid == 0:
        os.close(r)
        try:
            try:
                out = ("ok", fn(*args))
            except HarnessError as e:
                out = ("harness", str(e)[-4000:])
            except BaseException as e:  # pylint: disable=broad-except
                out = ("err", "".join(traceback.format_exception(e))[-4000:])
            with os.fdopen(w, "wb") as f:
                pickle.dump(out, f, protocol=pickle.HIGHEST_PROTOCOL)
        finally:
            os._exit(0)  # pylint: disable=protected-access
    os.close(w)
    with os.fdopen(r, "rb") as f:
        buf = f.read()
    os.waitpid(pid, 0)
    if not buf:
        raise HarnessError("forked child died without a result")
    status, val = pickle.loads(buf)
    if status == "harness":
        raise HarnessError(val)
    if status != "ok":
        raise HarnessError(f"forked child failed:\n{val}")
    return val


def outcome_to_dict(o: Outcome) -> dict:
    return {
        "violation": None if o.violation is None else o.violation.as_dict(),
        "digest": o.digest,
        "schedule": o.schedule,
        "faults": o.faults,
        "stats": o.stats,
        "cls": o.cls,
        "nontrivial": o.nontrivial,
        "sample": jsonable(o.sample),
        "steps": o.steps,
        "sim_time": o.sim_time,
    }


def outcome_from_dict(d: dict) -> Outcome:
    vd = d["violation"]
    v = None if vd is None else Violation(vd["property"], vd["oracle"], vd["sig"], vd["detail"])
    o = Outcome(v, d["digest"], None, stats=d["stats"], cls=d["cls"], nontrivial=d["nontrivial"], sample=d["sample"], steps=d["steps"], sim_time=d["sim_time"])
    o.schedule = [_tup(e) for e in d["schedule"]]
    o.faults = [_tup(f) for f in d["faults"]]
    return o


def execute_generate(engine: Any, record: dict, seed: int) -> Outcome:
    return engine.execute(record, random.Random(H("exec", seed)))


def execute_replay(engine: Any, record: dict) -> Outcome:
    return engine.execute(record, None)


def with_schedule(record: dict, out: Outcome) -> dict:
    r = copy.deepcopy(record)
    r["schedule"] = jsonable(compress_schedule(out.schedule))
    r["faults"] = jsonable(out.faults)
    return r


# --------------------------------------------------------------------------------------
# shrinking
# --------------------------------------------------------------------------------------
def generic_schedule_candidates(record: dict) -> Iterable[dict]:
    """Passes every engine shares: remove faults, delete / canonicalise schedule entries."""
    faults = record.get("faults") or []
    sched = record.get("schedule") or []
    if faults:
        c = copy.deepcopy(record)
        c["faults"] = []
        yield c
        if len(faults) > 1:
            for i in range(len(faults)):
                c = copy.deepcopy(record)
                del c["faults"][i]
                yield c
    if sched:
        c = copy.deepcopy(record)
        c["schedule"] = []
        yield c
        n = len(sched)
        k = n // 2
        while k >= 1:
            for i in range(0, n, k):
                c = copy.deepcopy(record)
                del c["schedule"][i : i + k]
                c["schedule"] = _remerge(c["schedule"])
                yield c
            if k == 1:
                break
            k //= 2
        for i in range(n):
            cnt = sched[i][0]
            for nc in sorted({1, cnt // 2, cnt - 1}):
                if 1 <= nc < cnt:
                    c = copy.deepcopy(record)
                    c["schedule"][i][0] = nc
                    yield c
        for i in range(n - 1):
            if _lt(sched[i + 1][1:], sched[i][1:]):
                c = copy.deepcopy(record)
                c["schedule"][i], c["schedule"][i + 1] = c["schedule"][i + 1], c["schedule"][i]
                c["schedule"] = _remerge(c["schedule"])
                yield c


def _remerge(sched: list) -> list:
    out: List[list] = []
    for e in sched:
        if out and out[-1][1:] == e[1:]:
            out[-1][0] += e[0]
        else:
            out.append(list(e))
    return out


def _lt(a: Any, b: Any) -> bool:
    try:
        return _tup(a) < _tup(b)
    except TypeError:
        return repr(a) < repr(b)


def record_size(record: dict) -> Tuple[int, int, str]:
    """Measure minimised by the shrinker: (length of the JSON text, schedule inversions,
    the text itself as a deterministic tie-break)."""
    sched = record.get("schedule") or []
    inv = sum(1 for i in range(len(sched) - 1) if _lt(sched[i + 1][1:], sched[i][1:]))
    txt = json.dumps(record, sort_keys=True, default=repr)
    return (len(txt), inv, txt)


def shrink(engine: Any, record: dict, key: Tuple[str, str], budget: int, wall_s: float = 600.0) -> Tuple[dict, int]:
    """Greedy fixed-point minimisation.  Every candidate is a complete re-execution in
    replay mode (skip semantics make a pruned schedule a legal schedule); it is kept only
    if the violation has the same (oracle, signature)."""
    n = 0
    improved = True
    best = record
    best_size = record_size(best)
    t_end = time.time() + wall_s
    while improved and n < budget and time.time() < t_end:
        improved = False
        for cand in _all_candidates(engine, best):
            if n >= budget or time.time() > t_end:
                break
            sz = record_size(cand)
            if sz >= best_size:
                continue
            n += 1
            try:
                out = execute_replay(engine, cand)
            except HarnessError:
                continue
            if out.key() == key:
                best, best_size, improved = cand, sz, True
                break
    return best, n


def _all_candidates(engine: Any, record: dict) -> Iterable[dict]:
    yield from engine.candidates(record)
    yield from generic_schedule_candidates(record)


# --------------------------------------------------------------------------------------
# known findings
# --------------------------------------------------------------------------------------
def load_known_findings() -> List[dict]:
    if not KNOWN_FINDINGS_FILE.exists():
        return []
    doc = json.loads(KNOWN_FINDINGS_FILE.read_text())
    return [f for f in doc.get("findings", []) if f.get("status") == "open"]


def _dig(d: Any, key: str) -> Any:
    """d["a"]["b"] for key "a.b" (None when a level is missing)."""
    for part in key.split("."):
        if not isinstance(d, dict):
            return None
        d = d.get(part)
    return d


def match_known(prop: str, v: dict, findings: List[dict]) -> Optional[dict]:
    """A finding matches when property and oracle agree, its signature equals the
    violation's and every key of its ``where`` clause equals the value found at that
    key in the violation's detail (narrow by construction)."""
    for f in findings:
        if f["property"] != prop:
            continue
        if v["oracle"] not in f["oracles"]:
            continue
        if "sig" in f and f["sig"] != v["sig"]:
            continue
        d = v.get("detail") or {}
        where = f.get("where", {})
        if not isinstance(d, dict):
            d = {}
        if all(_dig(d, k) == want for k, want in where.items()):
            return f
    return None


# --------------------------------------------------------------------------------------
# batch runner
# --------------------------------------------------------------------------------------
_ENGINES = {
    "C05": "odcsim.c05",
    "C06": "odcsim.c06",
    "C13": "odcsim.c13",
    "C18": "odcsim.c18",
    "C19": "odcsim.c19",
}


def load_engine(prop: str) -> Any:
    import importlib

    if prop not in _ENGINES:
        raise HarnessError(f"no engine for {prop}")
    return importlib.import_module(_ENGINES[prop])


MAX_KEEP_PER_SIG = 3
RUN_WATCHDOG_S = 600


def _worker(prop: str, base_seed: int, tier: str, indices: List[int], deadline: float, opts: dict) -> dict:
    engine = load_engine(prop)
    if hasattr(engine, "worker_init"):
        engine.worker_init(tier, opts)
    res: Dict[str, Any] = {
        "runs": 0,
        "steps": 0,
        "sim_time": 0.0,
        "faults": {},
        "probes": {},
        "classes": set(),
        "n_nontrivial": 0,
        "samples": [],
        "violations": {},
        "viol_counts": {},
        "harness_errors": [],
        "skipped": 0,
        "domain": {},
        "last_index": None,
    }
    for i in indices:
        if time.time() > deadline:
            res["skipped"] += 1
            continue
        seed = run_seed(base_seed, prop, i)
        faulthandler.dump_traceback_later(RUN_WATCHDOG_S, exit=True)
        try:
            rec = engine.generate(random.Random(seed), tier)
            out = execute_generate(engine, rec, seed)
        except HarnessError as e:
            res["harness_errors"].append({"index": i, "seed": seed, "error": str(e)[:2000]})
            if len(res["harness_errors"]) > 5:
                break
            continue
        except Exception as e:  # pylint: disable=broad-except
            res["harness_errors"].append({"index": i, "seed": seed, "error": "".join(traceback.format_exception(e))[-2000:]})
            if len(res["harness_errors"]) > 5:
                break
            continue
        finally:
            faulthandler.cancel_dump_traceback_later()
        res["runs"] += 1
        res["last_index"] = i
        res["steps"] += out.steps
        res["sim_time"] += out.sim_time
        for k, v in out.stats.get("faults", {}).items():
            res["faults"][k] = res["faults"].get(k, 0) + v
        for k, v in out.stats.get("probes", {}).items():
            res["probes"][k] = res["probes"].get(k, 0) + v
        for k, v in out.stats.get("domain", {}).items():
            res["domain"][k] = res["domain"].get(k, 0) + v
        if out.nontrivial:
            res["n_nontrivial"] += 1
            res["classes"].add(H(out.cls))
        if len(res["samples"]) < 2 and out.sample is not None and out.nontrivial:
            res["samples"].append(out.sample)
        if out.violation is not None:
            key = out.key()
            res["viol_counts"][key] = res["viol_counts"].get(key, 0) + 1
            lst = res["violations"].setdefault(key, [])
            if len(lst) < MAX_KEEP_PER_SIG:
                lst.append({"index": i, "seed": seed, "record": with_schedule(rec, out), "violation": out.violation.as_dict(), "digest": out.digest})
    return res


def run_batch(prop: str, tier: str, base_seed: int, n_runs: int, wall_cap_s: float, nproc: int, opts: Optional[dict] = None) -> dict:
    opts = opts or {}
    t0 = time.time()
    deadline = t0 + wall_cap_s
    # small blocks, interleaved, so that an early wall-clock stop still covers a prefix of indices
    block = max(1, min(200, n_runs // (nproc * 8) or 1))
    blocks = [list(range(s, min(n_runs, s + block))) for s in range(0, n_runs, block)]
    merged: Dict[str, Any] = {
        "runs": 0,
        "steps": 0,
        "sim_time": 0.0,
        "faults": {},
        "probes": {},
        "classes": set(),
        "n_nontrivial": 0,
        "samples": [],
        "violations": {},
        "viol_counts": {},
        "harness_errors": [],
        "skipped": 0,
        "domain": {},
    }
    ctx = multiprocessing.get_context("fork")
    engine = load_engine(prop)
    if hasattr(engine, "parent_init"):
        engine.parent_init(tier, opts)
    with ProcessPoolExecutor(max_workers=nproc, mp_context=ctx) as ex:
        futs = [ex.submit(_worker, prop, base_seed, tier, b, deadline, opts) for b in blocks]
        try:
            for f in as_completed(futs, timeout=wall_cap_s + RUN_WATCHDOG_S + 60):
                r = f.result()
                for k in ("runs", "steps", "sim_time", "n_nontrivial", "skipped"):
                    merged[k] += r[k]
                for k in ("faults", "probes", "domain", "viol_counts"):
                    for kk, vv in r[k].items():
                        merged[k][kk] = merged[k].get(kk, 0) + vv
                merged["classes"] |= r["classes"]
                if len(merged["samples"]) < 3:
                    merged["samples"].extend(r["samples"][: 3 - len(merged["samples"])])
                for key, lst in r["violations"].items():
                    merged["violations"].setdefault(key, []).extend(lst)
                merged["harness_errors"].extend(r["harness_errors"])
        except Exception as e:  # BrokenProcessPool, timeout
            merged["harness_errors"].append({"error": f"batch runner: {type(e).__name__}: {e}"})
    for key in merged["violations"]:
        merged["violations"][key].sort(key=lambda d: d["index"])
    merged["wall_s"] = time.time() - t0
    return merged


# --------------------------------------------------------------------------------------
# replay files
# --------------------------------------------------------------------------------------
def write_replay(prop: str, entry: dict, minimised: dict, min_out: Outcome, n_shrink: int) -> Path:
    d = REPLAY_DIR / prop
    d.mkdir(parents=True, exist_ok=True)
    v = min_out.violation
    assert v is not None
    safe = "".join(ch if ch.isalnum() or ch in "._-" else "_" for ch in f"{v.oracle}-{v.sig}")[:80]
    p = d / f"{safe}-{entry['seed']}.json"
    doc = {
        "property": prop,
        "seed": entry["seed"],
        "index": entry["index"],
        "expect": {"oracle": v.oracle, "sig": v.sig, "digest": min_out.digest},
        "violation": v.as_dict(),
        "record": minimised,
        "original_record": entry["record"],
        "original_digest": entry["digest"],
        "shrink_executions": n_shrink,
        "pythonhashseed": os.environ.get("PYTHONHASHSEED", ""),
    }
    p.write_text(json.dumps(doc, indent=1, sort_keys=True, default=repr))
    return p


def replay_file(path: str) -> int:
    doc = json.loads(Path(path).read_text())
    want_hs = doc.get("pythonhashseed")
    if want_hs not in (None, "", os.environ.get("PYTHONHASHSEED", "")) and not os.environ.get("ODCSIM_REEXEC"):
        env = dict(os.environ)
        env.update(PYTHONHASHSEED=str(want_hs), ODCSIM_REEXEC="1")
        os.execve(sys.executable, [sys.executable] + sys.argv, env)  # same interpreter, the run's hash seed
    prop = doc["property"]
    engine = load_engine(prop)
    if hasattr(engine, "parent_init"):
        engine.parent_init("quick", {})
    if hasattr(engine, "worker_init"):
        engine.worker_init("quick", {})
    out = execute_replay(engine, doc["record"])
    exp = doc["expect"]
    if out.violation is None:
        print(f"REPLAY-MISMATCH property={prop} expected {exp['oracle']} {exp['sig']} but the run was clean")
        return EXIT_HARNESS
    digest_exact = True
    if (out.violation.oracle, out.violation.sig) != (exp["oracle"], exp["sig"]) or (digest_exact and out.digest != exp["digest"]):
        print(f"REPLAY-MISMATCH property={prop} expected {exp} got {out.violation.oracle} {out.violation.sig} {out.digest}")
        return EXIT_HARNESS
    print(json.dumps(out.violation.as_dict(), indent=1, default=repr))
    print(f"VIOLATION property={prop} replay={path}")
    return EXIT_VIOLATION


# --------------------------------------------------------------------------------------
# evidence + verdict
# --------------------------------------------------------------------------------------
def finish(prop: str, tier: str, base_seed: int, merged: dict, engine: Any, shrink_budget: int, extra_cov: Optional[dict] = None, assumptions: Optional[List[str]] = None) -> int:
    findings = load_known_findings()
    known_hit: Dict[str, int] = {}
    unlisted: List[Tuple[Tuple[str, str], dict]] = []
    for key, lst in sorted(merged["violations"].items()):
        for entry in lst:
            f = match_known(prop, entry["violation"], findings)
            if f is not None:
                known_hit[f["id"]] = known_hit.get(f["id"], 0) + 1
            else:
                unlisted.append((key, entry))
    # one report per distinct (oracle, sig): the lowest index
    seen = set()
    reports = []
    for key, entry in unlisted:
        if key in seen:
            continue
        seen.add(key)
        reports.append((key, entry))

    exit_code = EXIT_OK
    replay_paths = []
    shrink_spent = 0.0
    for key, entry in reports[:8]:
        # confirm in replay mode first: the recorded schedule must reproduce the violation
        try:
            out0 = execute_replay(engine, entry["record"])
        except HarnessError as e:
            merged["harness_errors"].append({"error": f"replay of found violation failed: {e}"})
            continue
        digest_exact = True
        if out0.key() != key or (digest_exact and out0.digest != entry["digest"]):
            merged["harness_errors"].append({"error": f"nondeterministic replay for seed {entry['seed']}: {key}/{entry['digest']} vs {out0.key()}/{out0.digest}"})
            continue
        # minimisation is bounded in wall time too (line-level pre-emption makes single re-executions slow): per report and
        # in total; what is not minimised in time is reported as found
        per = 120.0 if tier == "quick" else 600.0
        left = (360.0 if tier == "quick" else 2400.0) - shrink_spent
        t_sh = time.time()
        small, n = shrink(engine, entry["record"], key, shrink_budget, wall_s=max(5.0, min(per, left)))
        shrink_spent += time.time() - t_sh
        out1 = execute_replay(engine, small)
        if out1.key() != key:
            small, out1 = entry["record"], out0
        path = write_replay(prop, entry, small, out1, n)
        replay_paths.append(str(path))
        vd = out1.violation.as_dict()
        print(json.dumps({"property": prop, "oracle": vd["oracle"], "sig": vd["sig"], "detail": json.dumps(vd["detail"], default=repr)[:1200]}))
        print(f"VIOLATION property={prop} replay={path}")
        exit_code = EXIT_VIOLATION

    for f in findings:
        if f["property"] == prop and f["id"] in known_hit:
            print(f"KNOWN-FINDING: property={prop} {f['id']}: {f['what']}")

    if merged["harness_errors"]:
        for he in merged["harness_errors"][:5]:
            print("HARNESS-ERROR", json.dumps(he, default=repr)[:3000], file=sys.stderr)
        if exit_code == EXIT_OK:
            exit_code = EXIT_HARNESS
    if merged["runs"] == 0 and exit_code == EXIT_OK:
        print("HARNESS-ERROR no runs completed", file=sys.stderr)
        exit_code = EXIT_HARNESS

    wall = merged["wall_s"]
    cov = {
        "evaluations": merged["runs"],
        "distinct_nontrivial": len(merged["classes"]),
        "rule": getattr(engine, "RULE", ""),
        "samples": merged["samples"][:3],
        "nontrivial_runs": merged["n_nontrivial"],
        "runs_per_hour": int(merged["runs"] / wall * 3600) if wall > 0 else 0,
        "seeds": {"base": base_seed, "derivation": "run_seed = blake2b('run', base, property, index)", "indices": [0, merged["runs"] + merged["skipped"]], "not_run_wall_cap": merged["skipped"]},
        "steps": merged["steps"],
        "sim_time_s": round(merged["sim_time"], 3),
        "faults_injected": dict(sorted(merged["faults"].items())),
        "probes": dict(sorted(merged["probes"].items())),
        "domain_counters": dict(sorted(merged["domain"].items())),
        "distinct_interleavings_measure": getattr(engine, "DISTINCT_MEASURE", ""),
        "components_real": getattr(engine, "COMPONENTS_REAL", []),
        "components_stub": getattr(engine, "COMPONENTS_STUB", []),
        "violation_signatures": {f"{k[0]} {k[1]}": v for k, v in sorted(merged["viol_counts"].items())},
        "known_findings_hit": known_hit,
        "harness_errors": len(merged["harness_errors"]),
        "replays": replay_paths,
    }
    if extra_cov:
        cov.update(extra_cov)
    hazard = set(getattr(engine, "HAZARD_PROBES", ()))  # indicators of a defect: zero is the good answer
    cov["hazard_probes_expected_zero"] = {k: v for k, v in cov["probes"].items() if k in hazard}
    ev = {
        "property_id": prop,
        "tier": tier,
        "seed": int(base_seed),
        "level": "exploration",
        "coverage": jsonable(cov),
        "assumptions": list(assumptions or getattr(engine, "ASSUMPTIONS", [])),
        "wall_s": round(wall, 2),
        "violations": len(reports),
    }
    zero = [k for k, v in cov["probes"].items() if v == 0 and k not in hazard]
    if zero:
        ev["assumptions"].append("probes never hit in this run (unexplored): " + ", ".join(zero))
    EVIDENCE_DIR.mkdir(exist_ok=True)
    (EVIDENCE_DIR / f"{prop}.json").write_text(json.dumps(ev, indent=1, sort_keys=True, default=repr))
    print(f"[{prop}] tier={tier} seed={base_seed} runs={merged['runs']} distinct={len(merged['classes'])} wall={wall:.1f}s faults={cov['faults_injected']} violations={len(reports)} known={known_hit} exit={exit_code}")
    return exit_code
