"""C05 -- parallel COG writer produces a correct, overview-first GeoTIFF.

System under simulation: real ``save_cog_with_dask`` end to end; the task graph (source
chunks -> overview reprojections -> compress bags -> repartition/concat -> MPU
append/fold/collate -> finaliser, plus the stats branch) is executed by DaskSim with K
workers; the sink is a real file through MPUFileSink, or s3:// through MultiPartUpload and
FakeS3 (in-process or cluster-coordinated with per-task writer copies).  The produced bytes
are decoded by two independent readers (GDAL via rasterio, tifffile).  Oracles O5.1-O5.8.
"""

from __future__ import annotations

import copy
import os
import random
import shutil
import tempfile
from pathlib import Path
from typing import Any, Dict, Iterable, List, Optional, Tuple

import logging

import numpy as np

from . import fakes
from . import kernel as K
from .core import Chooser, Digest, HarnessError, Outcome, Violation, draw_policy, exc_to_violation
from .dasksim import DaskSim

PROP = "C05"
RULE = (
    "each run draws an image (shape from a boundary-biased set incl. narrower than a tile, single row/column, sides equal to 2^levels; axis "
    "order YX/YXS/SYX with 1-5 samples; 13 dtypes incl. int64/uint64/float16/complex64/bool (a bool mask is expected back as 0/1 bytes); nodata none/value/NaN; a GeoBox in one of three CRSs, north-up or "
    "south-up / mirrored / rotated / sheared / non-square), writer options (blocksize list, compression x predictor from the probed "
    "domain, bigtiff, stats, spill_sz, writes_per_chunk), a source chunking (regular or irregular tuples; samples one per chunk, all in one, or in twos), a sink (file with four parts-directory placements, s3 in-process, "
    "s3 cluster-coordinated with per-task writer copies) and a DaskSim configuration (policy, K workers with line-level pre-emption inside the "
    "sinks, transport, recompute of pure layers, fusion, stalls). Non-trivial: the graph ran more than 8 tasks. Distinct: (workload, options, "
    "sink, task start order, fired faults)."
)
DISTINCT_MEASURE = "hash of (workload, writer options, sink, DaskSim task start order, fired faults)"
COMPONENTS_REAL = [
    "odc.geo.cog._tifffile.save_cog_with_dask (_make_empty_cog, _pyramids_from_cog_metadata, _compress_tiles, _patch_hdr, _stats_from_layer), odc.geo.cog._shared (CogMeta, compute_cog_spec, yaxis_from_shape)",
    "odc.geo.cog._mpu (mpu_write and MPUChunk protocol), odc.geo.cog._mpu_fs.MPUFileSink on the real file system, odc.geo.cog._s3 (MultiPartUpload, DelayedS3Writer)",
    "overview pyramid through the chunked reprojection of odc.geo._dask / GDAL warp; header construction through GDAL (to_cog) and tifffile; imagecodecs encoders",
    "dask graph construction and optimisation; independent readers: rasterio/GDAL and tifffile",
]
COMPONENTS_STUB = ["dask scheduler (DaskSim)", "S3 service (FakeS3, multipart minimum scaled down together with S3Limits.min_write_sz)", "distributed get_client/Variable/Lock (fakes)", "uuid4 in odc.geo._dask (seeded)"]
HAZARD_PROBES = ['levels_differ_from_reference_rule', 'pad_cells_not_fill', 'parts_left_in_destination_dir']
ASSUMPTIONS = [
    "codec domain = (dtype, compression, predictor) triples for which tifffile's own encoder output is decoded identically by GDAL in a start-up probe; excluded triples are listed in coverage.codec_domain",
    "compression='none' is outside the domain (the writer cannot express fixed-size uncompressed tiles)",
    "overview pixel content and the relative order among overview levels are not part of the statement and are not checked",
    "pad cell values are reported as a probe only",
    "S3 runs use spill_sz > 0 (with spill_sz == 0 the S3 path returns the assembled chunk without uploading, by design)",
]

CODEC_DOMAIN: Optional[Dict[str, Any]] = None
DTYPES = ["uint8", "uint16", "int16", "int32", "float32", "float64", "int8", "uint32", "int64", "uint64", "float16", "complex64", "bool"]
RARE_DTYPES = {"int64", "uint64", "float16", "complex64", "bool"}  # drawn less often (12 % of runs)


def file_dtype(dtype: str) -> str:
    """Sample type the file is expected to carry: TIFF has no boolean samples, masks are stored as 0/1 bytes."""
    return "uint8" if dtype == "bool" else dtype
COMPRESSIONS = ["deflate", "adobe_deflate", "zstd", "lzw", "lzma", "lerc", "lerc_deflate", "lerc_zstd"]
PREDICTORS = ["unset", False, True]


# --------------------------------------------------------------------------------------
# codec probe (domain restriction, DESIGN 5/C05)
# --------------------------------------------------------------------------------------
def _eff_predictor(dtype: str, comp: str, pred: Any) -> int:
    """Which TIFF predictor a request resolves to (documented behaviour of the writer)."""
    if pred == "unset":
        pred = comp in ("deflate", "adobe_deflate", "zstd", "lzma")
    if pred is True:
        dt = np.dtype(dtype)
        if dt.kind == "f":
            return 3
        if dt.kind in "ui" and dt.itemsize <= 4:
            return 2
        return 1
    return 1


def probe_codecs() -> Dict[str, Any]:
    import rasterio
    import tifffile

    ok: List[Tuple[str, str, Any]] = []
    bad: List[Tuple[str, str, Any, str]] = []
    d = tempfile.mkdtemp(prefix="odcsim-probe-", dir="/dev/shm")
    try:
        for dtype in DTYPES:
            img = ((np.arange(32 * 48).reshape(32, 48) * 37 + 11) % 251).astype(file_dtype(dtype))
            if dtype == "bool":
                img = (img % 3 == 0).astype("uint8")
            if np.dtype(dtype).kind == "f":
                img = img + img.dtype.type(0.25)
            elif np.dtype(dtype).kind == "c":
                img = img + img.dtype.type(0.25 - 3j)
            for comp in COMPRESSIONS:
                for pred in PREDICTORS:
                    if comp.startswith("lerc") and pred is True:
                        bad.append((dtype, comp, pred, "predictor undefined for LERC"))
                        continue
                    c, cargs = comp, {}
                    if comp == "deflate":
                        c = "adobe_deflate"
                    elif comp == "lerc_deflate":
                        c, cargs = "lerc", {"compression": "deflate"}
                    elif comp == "lerc_zstd":
                        c, cargs = "lerc", {"compression": "zstd"}
                    p = _eff_predictor(file_dtype(dtype), comp, pred)
                    fn = os.path.join(d, "p.tif")
                    try:
                        tifffile.imwrite(fn, img, tile=(16, 16), compression=c, compressionargs=cargs, predictor=p if p != 1 else None)
                        with rasterio.open(fn) as f:
                            got = f.read(1)
                        if got.dtype == img.dtype and np.array_equal(got, img):
                            ok.append((dtype, comp, pred))
                        else:
                            bad.append((dtype, comp, pred, "GDAL decodes different pixels"))
                    except Exception as e:  # pylint: disable=broad-except
                        bad.append((dtype, comp, pred, f"{type(e).__name__}: {str(e)[:60]}"))
    finally:
        shutil.rmtree(d, ignore_errors=True)
    return {"ok": ok, "excluded": bad}


def parent_init(tier: str, opts: dict) -> None:
    global CODEC_DOMAIN  # pylint: disable=global-statement
    logging.getLogger("tifffile").setLevel(logging.CRITICAL)
    if CODEC_DOMAIN is None:
        CODEC_DOMAIN = probe_codecs()
        if len(CODEC_DOMAIN["ok"]) < 20:
            raise HarnessError(f"codec probe admits only {len(CODEC_DOMAIN['ok'])} triples")


def worker_init(tier: str, opts: dict) -> None:
    parent_init(tier, opts)


def extra_coverage(tier: str) -> dict:
    dom = CODEC_DOMAIN or {"ok": [], "excluded": []}
    return {"codec_domain": {"admitted": len(dom["ok"]), "excluded": [list(map(str, b)) for b in dom["excluded"]]}}


# --------------------------------------------------------------------------------------
# generation
# --------------------------------------------------------------------------------------
SIDES = [1, 2, 3, 4, 5, 7, 15, 16, 17, 31, 32, 33, 48, 63, 64, 65, 100, 128, 129, 150, 200]


def generate(rng: random.Random, tier: str) -> dict:
    # pylint: disable=too-many-locals,too-many-branches
    assert CODEC_DOMAIN is not None
    ny, nx = rng.choice(SIDES), rng.choice(SIDES)
    if ny * nx > 20000:
        if rng.random() < 0.5:
            ny = rng.choice(SIDES[:12])
        else:
            nx = rng.choice(SIDES[:12])
    axis = rng.choice(["YX", "YX", "YXS", "SYX", "SYX"])
    ns = 0 if axis == "YX" else rng.choice([1, 2, 3, 4, 5])
    big = rng.random() < 0.04
    if big:
        # many tiles per side: 2^levels exceeds the tile size, so padding adds whole tiles
        ny, nx = rng.choice([257, 272, 300, 513, 64, 100, 1, 2]), rng.choice([257, 272, 300, 513, 16, 100])
        if ny * nx > 160000:
            nx = rng.choice([16, 100, 257])
        ns = min(ns, 2)
        if rng.random() < 0.3:
            # very elongated: seven or more pyramid levels at little cost
            ny, nx = rng.choice([(40, 1160), (1160, 17), (16, 3000), (1090, 33), (5, 2100)])
            ns = min(ns, 2)
        if tier == "thorough" and rng.random() < 0.2:
            # one step up in scale: six pyramid levels with 32 px tiles, very elongated images
            ny, nx = rng.choice([(1025, 1025), (1024, 1030), (16, 3000), (3000, 17), (1025, 40)])
            ns = min(ns, 1)
    rare = rng.random() < 0.12
    dtype, comp, pred = rng.choice([t for t in CODEC_DOMAIN["ok"] if (t[0] in RARE_DTYPES) == rare] or CODEC_DOMAIN["ok"])
    kind = np.dtype(dtype).kind
    nodata: Any = rng.choice([None, None, 0, 7, 200 if dtype != "int8" else -100, "nan"])
    if nodata == "nan" and kind != "f":
        nodata = None
    if dtype == "bool" and nodata is not None:
        nodata = rng.choice([0, 1])
    blocks = [16, 32, 48, 64, 20, 100, 128, 256, 512]
    bs_kind = rng.choice(["list1", "list2", "list3", "int", "unset", "tuple", "tuple-last"])
    if bs_kind == "list1":
        blocksize: Any = [rng.choice(blocks)]
    elif bs_kind == "list2":
        blocksize = [rng.choice(blocks), rng.choice(blocks[:5])]
    elif bs_kind == "list3":
        blocksize = [rng.choice(blocks), rng.choice(blocks[:5]), rng.choice(blocks[:3])]
    elif bs_kind == "int":
        blocksize = rng.choice(blocks)
    elif bs_kind == "tuple":
        blocksize = [[rng.choice(blocks[:6]), rng.choice(blocks[:6])], rng.choice(blocks[:4])]
    elif bs_kind == "tuple-last":
        # a non-square tile as the LAST entry: the one the layout rule (overview count, padding) is computed from
        last_t = [rng.choice(blocks[:7]), rng.choice(blocks[:7])]
        blocksize = [last_t] if rng.random() < 0.5 else [rng.choice(blocks[:6]), last_t]
    else:
        blocksize = "unset"
    if big:
        blocksize = rng.choice([[16], [32, 16], 16, [20], [48, 16]])
        if max(ny, nx) > 600:
            blocksize = rng.choice([[32], [32, 16], [64, 32]])
    cs = [8, 16, 20, 32, 64, 200]
    chy, chx = rng.choice(cs), rng.choice(cs)
    if big:
        chy, chx = rng.choice([64, 128, 200, 600]), rng.choice([64, 128, 200, 600])
    irregular = None
    if not big and rng.random() < 0.15 and ny >= 4 and nx >= 4:
        # explicit irregular chunk tuples (what slicing a chunked array leaves behind), e.g. (10, 32, 32)
        def split(n, c):
            first = rng.randrange(1, min(c, n - 1) + 1)
            rest = n - first
            return [first] + [c] * (rest // c) + ([rest % c] if rest % c else [])

        irregular = [split(ny, chy), split(nx, chx)]
    band_chunk = rng.choice(["one", "all", "group"])  # group: samples chunked in twos, the last chunk possibly shorter
    sink = rng.choice(["file"] * 5 + ["s3"] * 2 + ["s3-cluster"] * 2)
    place = rng.choice(["default", "default", "base-exists", "base-nested", "xdev"]) if sink == "file" else None
    workers = rng.choice([1, 1, 2, 3, 4])
    if big:
        workers = 1  # thousands of tasks: keep these runs free of per-call tracing overhead
    spill = rng.choice([0, 1, 1 << 10, 1 << 12, 1 << 14, 1 << 20, "default"])
    if sink != "file" and spill == 0:
        spill = 1 << 12
    cfg = {
        "axis": axis,
        "ns": ns,
        "dtype": dtype,
        "compression": comp,
        "predictor": pred,
        "level": rng.choice([None, None, None, 1, 9]) if comp in ("deflate", "zstd", "adobe_deflate") else None,
        "nodata": nodata,
        "blocksize": blocksize,
        "bigtiff": rng.random() < 0.6,
        "stats": rng.choice([True, True, False, 0]),
        "spill_sz": spill,
        "wpc": rng.choice(["default", 1, 2, 4]),
        "chunks": [chy, chx],
        "irregular_chunks": irregular,
        "band_chunk": band_chunk,
        "sink": sink,
        "place": place,
        "noise": rng.random() < 0.4,  # incompressible pixel values
        # something is already at the destination path (a re-run, a second save to the same name)
        "dst_exists": bool(sink == "file" and rng.random() < 0.12),
        "s3_min_write": rng.choice([4 << 10, 8 << 10, 16 << 10, 64 << 10]),
        "crs": rng.choice([4326, 32633, 3857]),
        "gbox": "std" if rng.random() < 0.7 else rng.choice(GBOX_KINDS[1:]),
        "resampling": rng.choice(["nearest", "nearest", "nearest", "average", "bilinear"]),
        "dask": {
            "workers": workers,
            "optimize": rng.random() < 0.7,
            "transport": rng.choice([0.0, 0.0, 0.3, 1.0]),
            "recompute": rng.choice([0.0, 0.0, 0.1, 0.3]),
            "stall": rng.choice([0.0, 0.0, 0.1]),
            "policy": draw_policy(rng, groups=None, horizon=400),
            # where worker threads can be pre-empted (sinks: the two sink files; tiles: + tile compression and header
            # patching; all: + the multi-part protocol), and whether workers are made to meet inside the sink code
            "trace": rng.choice(["sinks", "tiles", "tiles", "all"]),
            "rendezvous": rng.random() < 0.4,
        },
        "uuid_seed": rng.getrandbits(32),
        # same values, other in-memory representation (what netCDF / FITS readers hand out)
        "big_endian_input": np.dtype(dtype).itemsize > 1 and rng.random() < 0.08,
        # GDAL-style keyword spelling of the codec level
        "gdal_level_kw": rng.random() < 0.15,
        # an earlier save in the same process (another small image, another codec setting), optionally handing the same
        # compressionargs dict to both calls: what one call leaves behind - in module state, in default arguments, in the
        # caller's own dict - must not reach the next
        "prelude": None,
    }
    if rng.random() < 0.12:
        cfg["prelude"] = {"compression": rng.choice(["lerc_zstd", "lerc_deflate", "zstd", "deflate", "lerc"]), "level": rng.choice([None, 9, 1]), "gdal_level_kw": rng.random() < 0.3, "shared_args": rng.random() < 0.5}
    if not big and rng.random() < 0.10:
        # sink pressure: the conjunction under which several tasks make part writes of their own, and early -
        # incompressible pixels, tiles of 8 KiB and more, a small spill threshold, several writes per chunk,
        # several workers that are made to meet inside the sink code.  Drawn one factor at a time it comes up in
        # about one run in a thousand, and first writes of two tasks never overlapped in 900 runs (c05i, c05l)
        ny, nx = rng.choice([100, 128, 129, 150, 200]), rng.choice([100, 128, 129, 150, 200])
        if np.dtype(cfg["dtype"]).itemsize < 2 or cfg["dtype"] == "bool":
            wide = [t for t in CODEC_DOMAIN["ok"] if t[0] in ("uint16", "int16", "int32", "float32")]
            cfg["dtype"], cfg["compression"], cfg["predictor"] = rng.choice(wide)
            cfg["level"] = None
            if cfg["nodata"] == "nan" and np.dtype(cfg["dtype"]).kind != "f":
                cfg["nodata"] = None
        cfg.update(noise=True, blocksize=rng.choice([[64], [64, 32], [48], [128, 64]]), spill_sz=rng.choice([1, 1 << 12, 1 << 14]), wpc=rng.choice([2, 4]), irregular_chunks=None, chunks=rng.choice([[64, 64], [32, 64], [200, 200]]), big_endian_input=False)
        if cfg["sink"] == "s3-cluster" and rng.random() < 0.5:
            cfg["sink"] = "file"
            cfg["place"] = rng.choice(["default", "default", "base-exists", "base-nested"])
        cfg["dask"].update(workers=rng.choice([2, 3, 4]), rendezvous=True, trace=rng.choice(["sinks", "sinks", "all"]), stall=0.0)
        cfg["pressure"] = True
    if tier == "thorough" and not big and rng.random() < 0.012:
        # the service's real limits: S3Limits left as shipped (5 MiB minimum part size), an image large and
        # incompressible enough for several parts (about 19 MB of uint16 noise), spill threshold at the minimum
        ny, nx = rng.choice([3000, 3100]), rng.choice([3100, 3200])
        wide = [t for t in CODEC_DOMAIN["ok"] if t[0] == "uint16" and t[1] in ("deflate", "zstd", "lzw")]
        cfg["dtype"], cfg["compression"], cfg["predictor"] = rng.choice(wide)
        cfg.update(axis="YX", ns=0, level=None, noise=True, nodata=None if cfg["nodata"] == "nan" else cfg["nodata"], blocksize=[256], chunks=[512, 512], irregular_chunks=None, big_endian_input=False,
                   sink=rng.choice(["s3", "s3-cluster"]), place=None, dst_exists=False, s3_min_write="true", spill_sz=rng.choice([5 << 20, 6 << 20]), wpc=rng.choice([2, 4]), gbox="std", pressure=False)
        cfg["dask"].update(workers=rng.choice([1, 2]), trace="sinks", rendezvous=False, recompute=0.0, stall=0.0)
    # domain: a nodata value the sample type can hold (the special runs above may have replaced the dtype)
    nd, dt_ = cfg["nodata"], np.dtype(cfg["dtype"])
    if nd == "nan" and dt_.kind != "f":
        cfg["nodata"] = None
    elif isinstance(nd, int) and dt_.kind in "ui" and not (np.iinfo(dt_).min <= nd <= np.iinfo(dt_).max):
        cfg["nodata"] = 7
    elif isinstance(nd, int) and dt_.kind == "b" and nd not in (0, 1):
        cfg["nodata"] = 1
    return {"config": cfg, "workload": {"shape": [ny, nx]}}


# --------------------------------------------------------------------------------------
# execution
# --------------------------------------------------------------------------------------
def make_pixels(ny: int, nx: int, ns: int, axis: str, dtype: str, noise: bool = False) -> np.ndarray:
    dt = np.dtype(dtype)
    rows, cols = np.meshgrid(np.arange(ny, dtype="int64"), np.arange(nx, dtype="int64"), indexing="ij")

    def plane(b: int) -> np.ndarray:
        v = rows * 131 + cols * 7 + b * 1009 + 1
        if noise:
            # still a function of (band, row, col), but nothing a predictor or an entropy coder can squeeze: compressed
            # tiles stay large enough for partitions to spill from inside tasks (ramps compress to a few dozen bytes)
            # (a 64-bit finaliser, not a multiplicative hash: v * K is linear in v and the TIFF predictor differences it away)
            x = v.astype(np.uint64)
            x ^= x >> np.uint64(33)
            x *= np.uint64(0xFF51AFD7ED558CCD)
            x ^= x >> np.uint64(33)
            x *= np.uint64(0xC4CEB9FE1A85EC53)
            x ^= x >> np.uint64(33)
            v = (x & np.uint64(0x7FFFFFFF)).astype(np.int64)
        if dt.kind == "b":
            return ((v * 2654435761) >> 7) % 5 < 2  # a mask: no run-length or period a tile shift would preserve
        if dt.kind == "f":
            return ((v % 9973).astype(dt) + dt.type(0.5)).astype(dt)
        if dt.kind == "c":
            return ((v % 9973) + 0.5 - 1j * ((v * 3) % 1013)).astype(dt)
        hi = int(np.iinfo(dt).max)
        return (v % min(hi, 30011)).astype(dt)

    if axis == "YX":
        return plane(0)
    planes = [plane(b) for b in range(ns)]
    return np.stack(planes, axis=0 if axis == "SYX" else 2)


GBOX_KINDS = ["std", "south-up", "rot30", "rot90", "shear", "nonsquare", "mirrored"]


def _gbox_params(crs: int, ny: int, nx: int, kind: str = "std") -> Tuple[List[float], str]:
    from affine import Affine

    if crs == 4326:
        aff, name = [0.01, 0.0, 14.0, 0.0, -0.01, 50.0], "EPSG:4326"
    elif crs == 3857:
        aff, name = [30.0, 0.0, 1560000.0, 0.0, -30.0, 6450000.0], "EPSG:3857"
    else:
        aff, name = [10.0, 0.0, 450000.0, 0.0, -10.0, 5540000.0], "EPSG:32633"
    if kind == "std":
        return aff, name
    a, _, c, _, e, f = aff
    if kind == "south-up":
        A = Affine(a, 0, c, 0, -e, f)
    elif kind == "mirrored":
        A = Affine(-a, 0, c, 0, e, f)
    elif kind == "nonsquare":
        A = Affine(a * 2, 0, c, 0, e * 0.75, f)
    elif kind == "rot30":
        A = Affine.translation(c, f) * Affine.rotation(30) * Affine.scale(a, e)
    elif kind == "rot90":
        A = Affine.translation(c, f) * Affine.rotation(90) * Affine.scale(a, e)
    elif kind == "shear":
        A = Affine.translation(c, f) * Affine.shear(12, 0) * Affine.scale(a, e)
    else:
        raise HarnessError(f"unknown gbox kind {kind}")
    return [float(x) for x in A[:6]], name


def _seeded_uuid(seed: int):
    import uuid

    r = random.Random(seed)
    return lambda: uuid.UUID(int=r.getrandbits(128), version=4)


_LIMIT_ORIG: Dict[str, Any] = {}


def _patch_s3_min(n: Optional[int]) -> None:
    from odc.geo.cog import _s3 as S

    if "p" not in _LIMIT_ORIG:
        _LIMIT_ORIG["p"] = S.S3Limits.__dict__["min_write_sz"]
    if n is None:
        S.S3Limits.min_write_sz = _LIMIT_ORIG["p"]  # type: ignore
    else:
        S.S3Limits.min_write_sz = property(lambda self: n)  # type: ignore


def _has_protocol_state(x: Any, depth: int = 0) -> bool:
    from odc.geo.cog._mpu import MPUChunk

    if isinstance(x, MPUChunk):
        return True
    if depth < 3 and isinstance(x, (list, tuple)):
        return any(_has_protocol_state(i, depth + 1) for i in x)
    if depth < 3 and isinstance(x, dict):
        return any(_has_protocol_state(i, depth + 1) for i in x.values())
    return False


def _pure_task(c: Tuple, data: Dict[Any, Any], value: Any) -> bool:
    """A task may be recomputed iff it neither consumes nor produces multi-part protocol
    state (MPUChunk): those are the tasks the graph itself declares impure (bag of chunks
    mutated in place, pure=False collate, finaliser).  Decided on values, not names --
    optimisation fuses and renames tasks."""
    if _has_protocol_state(value):
        return False
    return not any(_has_protocol_state(v_) for v_ in data.values())


def execute(record: dict, rng: Optional[random.Random]) -> Outcome:
    """Every run executes in a child forked from a process that has imported everything but has
    never run the code under test: hidden module state cannot leak from one run into the next."""
    import gc

    from .core import fork_call, outcome_from_dict

    gc.freeze()
    return outcome_from_dict(fork_call(_execute_in_child, record, None if rng is None else rng.getstate()))


def _execute_in_child(record: dict, rng_state: Any) -> dict:
    from .core import outcome_to_dict

    rng = None
    if rng_state is not None:
        rng = random.Random()
        rng.setstate(rng_state)
    return outcome_to_dict(_execute(record, rng))


def _execute(record: dict, rng: Optional[random.Random]) -> Outcome:
    # pylint: disable=too-many-locals,too-many-branches,too-many-statements
    import dask
    import dask.array as da
    import odc.geo._dask as OD
    import xarray as xr
    from affine import Affine
    from odc.geo.cog import _s3 as S
    from odc.geo.cog import save_cog_with_dask
    from odc.geo.geobox import GeoBox
    from odc.geo.xr import wrap_xr, xr_coords

    cfg = record["config"]
    ny, nx = record["workload"]["shape"]
    dcfg = cfg["dask"]
    ch = Chooser(rng, record.get("schedule"), record.get("faults"), dcfg.get("policy"))
    log = Digest()
    probes = {
        "narrower_than_tile": 0,
        "single_row_or_column": 0,
        "side_equals_pow2_levels": 0,
        "multi_level_pyramid": 0,
        "levels_differ_from_reference_rule": 0,
        "pad_cells_not_fill": 0,
        "sink_file": 0,
        "sink_s3_inproc": 0,
        "sink_s3_cluster": 0,
        "sink_cross_device": 0,
        "destination_existed": 0,
        "earlier_save_in_same_process": 0,
        "compressionargs_dict_reused": 0,
        "trace_sinks": 0,
        "trace_tiles": 0,
        "trace_all": 0,
        "workers_met_in_sink_code": 0,
        "sink_pressure_runs": 0,
        "s3_true_5MiB_limit_runs": 0,
        "s3_multiple_parts": 0,
        "multi_worker": 0,
        "padding_adds_whole_tiles": 0,
        "irregular_source_chunks": 0,
        "samples_chunked_in_groups": 0,
        "seven_or_more_levels": 0,
        "big_endian_input": 0,
        "gdal_style_level_keyword": 0,
        "rgb_like_3_or_4_samples": 0,
        "syx_width_3_or_4": 0,
        "concurrent_writer_calls": 0,
        "bag_repartitioned": 0,
    }
    axis, ns, dtype = cfg["axis"], cfg["ns"], cfg["dtype"]
    data = make_pixels(ny, nx, ns, axis, dtype, noise=bool(cfg.get("noise")))
    aff, crs = _gbox_params(cfg["crs"], ny, nx, cfg.get("gbox", "std"))
    nodata = float("nan") if cfg["nodata"] == "nan" else cfg["nodata"]
    if hasattr(OD, "uuid4"):
        OD.uuid4 = _seeded_uuid(cfg["uuid_seed"])
    tmp = Path(tempfile.mkdtemp(prefix=f"odcsim-c05-{os.getpid()}-", dir="/dev/shm"))
    cleanup = [tmp]
    sink = cfg["sink"]
    true_limits = cfg["s3_min_write"] == "true"
    s3 = fakes.FakeS3(min_part_size=(5 << 20) if true_limits else cfg["s3_min_write"])
    cluster = fakes.FakeCluster()
    kernel: Optional[K.Kernel] = None
    v: Optional[Violation] = None
    sim: Optional[DaskSim] = None
    result: Any = None
    out_bytes_path: Optional[Path] = None
    try:
        try:
            gbox = GeoBox((ny, nx), Affine(*aff), crs)
            chy, chx = cfg["chunks"]
            if axis == "YX":
                chunks: Tuple[int, ...] = (chy, chx)
            else:
                bc = {"all": ns, "one": 1, "group": 2}[cfg["band_chunk"]]
                if 1 < bc < ns:
                    probes["samples_chunked_in_groups"] = 1
                chunks = (chy, chx, bc) if axis == "YXS" else (bc, chy, chx)
            if cfg.get("irregular_chunks"):
                iy, ix = (tuple(c) for c in cfg["irregular_chunks"])
                if axis == "YX":
                    chunks = (iy, ix)
                else:
                    bct = {"all": (ns,), "one": (1,) * ns, "group": (1,) * (ns % 2) + (2,) * (ns // 2)}[cfg["band_chunk"]]
                    chunks = (iy, ix, bct) if axis == "YXS" else (bct, iy, ix)
                probes["irregular_source_chunks"] = 1
            # the graph gets its own copy: the reference pixels must stay out of reach of the code under test
            feed = data.copy()
            if cfg.get("big_endian_input"):
                feed = feed.astype(feed.dtype.newbyteorder(">"))
                probes["big_endian_input"] = 1
            arr = da.from_array(feed, chunks=chunks, name=f"pix-{cfg['uuid_seed']:032x}")
            if axis == "SYX":
                attrs = {} if nodata is None else {"nodata": nodata}
                xx = xr.DataArray(arr, dims=("band", *gbox.dimensions), coords=xr_coords(gbox), attrs=attrs)
            else:
                xx = wrap_xr(arr, gbox, nodata=nodata)
            kw: Dict[str, Any] = {"compression": cfg["compression"], "bigtiff": cfg["bigtiff"], "stats": cfg["stats"], "overview_resampling": cfg["resampling"]}
            if cfg["predictor"] != "unset":
                kw["predictor"] = cfg["predictor"]
            if cfg["level"] is not None:
                kw["level"] = cfg["level"]
            elif cfg.get("gdal_level_kw"):
                gk = {"deflate": ("ZLEVEL", 4), "adobe_deflate": ("zlevel", 4), "zstd": ("ZSTD_LEVEL", 5), "lerc_zstd": ("ZSTD_LEVEL", 5), "lerc_deflate": ("ZLEVEL", 4)}.get(cfg["compression"])
                if gk is not None:
                    kw[gk[0]] = gk[1]
                    probes["gdal_style_level_keyword"] = 1
            if cfg["blocksize"] != "unset":
                bs = cfg["blocksize"]
                kw["blocksize"] = [tuple(b) if isinstance(b, list) else b for b in bs] if isinstance(bs, list) else bs
            if cfg["spill_sz"] != "default":
                kw["spill_sz"] = cfg["spill_sz"]
            if cfg["wpc"] != "default":
                kw["writes_per_chunk"] = cfg["wpc"]
            getattr(S, "_state", {}).clear()
            fakes.install_fake_s3(s3)
            fakes.install_distributed_fakes(cluster)
            if sink == "file":
                probes["sink_file"] = 1
                dst = tmp / "out" / "img.tif"
                dst.parent.mkdir()
                if cfg.get("dst_exists"):
                    dst.write_bytes(b"II*\x00" + bytes(range(256)) * (1 + cfg["uuid_seed"] % 40))
                    probes["destination_existed"] = 1
                place = cfg.get("place") or "default"
                if place == "base-exists":
                    (tmp / "pb").mkdir()
                    kw["parts_base"] = str(tmp / "pb")
                elif place == "base-nested":
                    kw["parts_base"] = str(tmp / "a" / "b")
                elif place == "xdev":
                    pb = Path(tempfile.mkdtemp(prefix=f"odcsim-c05-{os.getpid()}-", dir="/tmp"))
                    cleanup.append(pb)
                    kw["parts_base"] = str(pb)
                    probes["sink_cross_device"] = 1
                dst_arg = str(dst)
            else:
                _patch_s3_min(None if true_limits else cfg["s3_min_write"])
                if true_limits:
                    probes["s3_true_5MiB_limit_runs"] = 1
                dst_arg = "s3://bkt/dir/img.tif"
                if sink == "s3-cluster":
                    probes["sink_s3_cluster"] = 1
                    cluster.default_client = fakes.FakeClient(cluster, "client0")
                else:
                    probes["sink_s3_inproc"] = 1
                    cluster.default_client = None
            pre = cfg.get("prelude")
            if pre and ("uint16", pre["compression"], "unset") in set(map(tuple, (CODEC_DOMAIN or {"ok": []})["ok"])):
                probes["earlier_save_in_same_process"] = 1
                shared_args: Dict[str, Any] = {}
                pkw: Dict[str, Any] = {"compression": pre["compression"], "stats": False}
                if pre["compression"] in ("zstd", "deflate") and pre["level"] is not None:
                    if pre["gdal_level_kw"]:
                        pkw[{"zstd": "ZSTD_LEVEL", "deflate": "ZLEVEL"}[pre["compression"]]] = pre["level"]
                    else:
                        pkw["level"] = pre["level"]
                elif pre["compression"].startswith("lerc_") and pre["gdal_level_kw"]:
                    pkw[{"lerc_zstd": "ZSTD_LEVEL", "lerc_deflate": "ZLEVEL"}[pre["compression"]]] = 5
                if pre["shared_args"]:
                    pkw["compressionargs"] = shared_args
                    kw["compressionargs"] = shared_args
                    probes["compressionargs_dict_reused"] = 1
                pimg = (np.arange(20 * 24, dtype="uint16").reshape(20, 24) * 37 + 3) % 4001
                pgb = GeoBox((20, 24), Affine(*aff), crs)
                pfut = save_cog_with_dask(wrap_xr(da.from_array(pimg.astype("uint16"), chunks=(16, 16), name=f"pre-{cfg['uuid_seed']:032x}"), pgb), str(tmp / "prelude.tif"), blocksize=[16], **pkw)
                dask.compute(pfut, scheduler="synchronous")
            fut = save_cog_with_dask(xx, dst_arg, **kw)
            workers = dcfg["workers"]
            # worker threads are pre-empted at every line of the sink files and - "trace" knob - of the tile
            # compression / header patching code (_tifffile.py) and of the multi-part protocol (_mpu.py)
            trace = dcfg.get("trace") or "sinks"
            tfiles = _sink_files() + ((_cog_files()[0],) if trace in ("tiles", "all") else ()) + ((_cog_files()[1],) if trace == "all" else ())
            kernel = K.Kernel(trace_files=tfiles, seam_funcs=()) if workers > 1 else None
            if kernel is not None:
                probes[f"trace_{trace}"] = 1
            if workers > 1:
                probes["multi_worker"] = 1
            sim = DaskSim(
                ch,
                log,
                workers=workers,
                transport=dcfg["transport"] if sink != "s3" else 0.0,
                task_transport=(sink == "s3-cluster"),
                recompute=dcfg["recompute"],
                pure=_pure_task,
                stall=dcfg["stall"] * (0.2 if (dcfg.get("trace") or "sinks") != "sinks" else 1.0),  # per step: line-level runs have many more steps
                kernel=kernel,
                log_tasks=True,
                real=dcfg.get("real"),
                rendezvous=(_in_sink_code if (dcfg.get("rendezvous") and workers > 1) else None),
            )
            if kernel is not None:
                K.activate(kernel)
            (result,) = dask.compute(fut, scheduler=sim, optimize_graph=dcfg["optimize"])
        except HarnessError:
            raise
        except K.Deadlock as e:
            v = Violation(PROP, "O5.8", "deadlock" if str(e) != "budget" else "step-budget-exhausted", {"state": str(e)[:300]})
        except Exception as e:  # pylint: disable=broad-except
            v = exc_to_violation(PROP, "O5.8", e, extra={"sink": sink})
        finally:
            if kernel is not None:
                ch.count("preemption", kernel.switches)  # context switches between worker threads actually taken
                kernel.shutdown()
                K.activate(None)
            fakes.uninstall_distributed_fakes()
            fakes.uninstall_fake_s3()
            _patch_s3_min(None)
            getattr(S, "_state", {}).clear()

        if v is None:
            if sink == "file":
                out_bytes_path = tmp / "out" / "img.tif"
                if result is None or Path(str(result)) != out_bytes_path:
                    v = Violation(PROP, "O5.8", "compute-result-is-not-the-sink-receipt", {"result": repr(result)[:200]})
                elif not out_bytes_path.exists():
                    v = Violation(PROP, "O5.8", "destination-file-missing", {})
                else:
                    leftovers = [p.name for p in out_bytes_path.parent.iterdir() if p.name != "img.tif"]
                    if leftovers:
                        probes["parts_left_in_destination_dir"] = 1
            else:
                body = s3.objects.get(("bkt", "dir/img.tif"))
                creates = [c for c in s3.calls if c[0] == "create"]
                nparts = len([c for c in s3.calls if c[0] == "part"])
                if nparts > 1:
                    probes["s3_multiple_parts"] = 1
                if not isinstance(result, dict) or result.get("Key") != "dir/img.tif":
                    v = Violation(PROP, "O5.8", "compute-result-is-not-the-sink-receipt", {"result": repr(result)[:200]})
                elif body is None:
                    v = Violation(PROP, "O5.8", "object-missing-after-compute", {})
                elif len(creates) != 1:
                    v = Violation(PROP, "O5.8", "upload-initiated-more-than-once", {"creates": len(creates)})
                else:
                    out_bytes_path = tmp / "s3obj.tif"
                    out_bytes_path.write_bytes(body)
        if v is None:
            assert out_bytes_path is not None
            v = check_file(out_bytes_path, data, cfg, aff, crs, nodata, ny, nx, probes)
            log.add("file", os.path.getsize(out_bytes_path), _sha(out_bytes_path))
    finally:
        for d in cleanup:
            shutil.rmtree(d, ignore_errors=True)
    if axis != "YX" and ns in (3, 4):
        probes["rgb_like_3_or_4_samples"] = 1
    if axis == "SYX" and nx in (3, 4):
        probes["syx_width_3_or_4"] = 1
    if min(ny, nx) == 1:
        probes["single_row_or_column"] = 1
    order = tuple(sim.order) if sim else ()
    if sim is not None and sim.max_parallel > 1:
        probes["concurrent_writer_calls"] = 1
    if cfg.get("pressure"):
        probes["sink_pressure_runs"] = 1
    if sim is not None and sim.rendezvous is not None:
        ch.count("rendezvous_hold", 300 - sim.rendezvous_budget)
    if sim is not None and sim.rendezvous_met:
        probes["workers_met_in_sink_code"] = 1
    if sim is not None and any("repartition" in str(c[0]) for c in sim.order):
        probes["bag_repartitioned"] = 1
    cls = (str(record["workload"]), str({k: v_ for k, v_ in cfg.items() if k not in ("dask", "uuid_seed")}), order, tuple(ch.faults_out))
    sample = {
        "config": {k: v_ for k, v_ in cfg.items() if k != "dask"},
        "dask": dcfg,
        "shape": [ny, nx],
        "tasks": sim.ntasks if sim else 0,
        "layers": sim.layers[:40] if sim else [],
        "order_head": [list(map(str, c)) for c in order[:25]],
        "faults_head": [list(map(str, f)) for f in ch.faults_out[:12]],
        "s3_calls": [list(map(str, c)) for c in s3.calls[:12]],
    }
    return Outcome(v, log.hex(), ch, stats={"probes": probes}, cls=cls, nontrivial=bool(sim and sim.ntasks > 8), sample=sample, steps=sim.steps if sim else 0, sim_time=kernel.now if kernel else 0.0)


def _sha(p: Path) -> str:
    import hashlib

    return hashlib.blake2b(p.read_bytes(), digest_size=8).hexdigest()


_SINK_FILES: Optional[Tuple[str, ...]] = None


def _in_sink_code(label: Any) -> bool:
    return isinstance(label, tuple) and len(label) > 1 and label[0] == "line" and label[1] in ("_mpu_fs.py", "_s3.py")


def _cog_files() -> Tuple[str, str]:
    from odc.geo.cog import _mpu, _tifffile

    return (_tifffile.__file__, _mpu.__file__)


def _sink_files() -> Tuple[str, ...]:
    global _SINK_FILES  # pylint: disable=global-statement
    if _SINK_FILES is None:
        from odc.geo.cog import _mpu_fs, _s3

        _SINK_FILES = (_s3.__file__, _mpu_fs.__file__)
    return _SINK_FILES


# --------------------------------------------------------------------------------------
# oracles over the produced file
# --------------------------------------------------------------------------------------
def _ref_levels(ny: int, nx: int, blocksize: Any, chunks: List[int]) -> int:
    """Documented layout rule: tile = last blocksize rounded up to 16; halve until it fits."""
    if blocksize == "unset":
        # the writer's default: [chunk shape, half the longer chunk side], chunk shape as dask reports it (largest chunk per
        # axis, never larger than the image)
        last: Any = max(1, max(min(int(chunks[0]), ny), min(int(chunks[1]), nx)) // 2)
    elif isinstance(blocksize, list):
        last = blocksize[-1]
    else:
        last = blocksize
    t = last if isinstance(last, (list, tuple)) else (last, last)

    def up16(b: int, dim: int = 0) -> int:
        return -(-b // 16) * 16

    ty, tx = up16(int(t[0])), up16(int(t[1]))

    def n_ov(block: int, dim: int) -> int:
        c = 0
        while block < dim:
            dim //= 2
            c += 1
        return c

    return max(n_ov(ty, ny), n_ov(tx, nx))


def check_file(path: Path, data: np.ndarray, cfg: dict, aff: List[float], crs: str, nodata: Any, ny: int, nx: int, probes: dict) -> Optional[Violation]:
    # pylint: disable=too-many-locals,too-many-return-statements,too-many-branches,too-many-statements
    import rasterio
    import tifffile

    axis, ns, dtype = cfg["axis"], cfg["ns"], cfg["dtype"]
    nb = 1 if axis == "YX" else ns
    fsize = os.path.getsize(path)
    # ---- tifffile: structure
    try:
        with tifffile.TiffFile(str(path)) as tf:
            pages = list(tf.pages)
            info = []
            for p in pages:
                info.append(
                    {
                        "H": int(p.imagelength),
                        "W": int(p.imagewidth),
                        "th": int(p.tilelength) if p.is_tiled else 0,
                        "tw": int(p.tilewidth) if p.is_tiled else 0,
                        "offs": [int(o) for o in p.dataoffsets],
                        "cnts": [int(c) for c in p.databytecounts],
                        "reduced": bool(p.is_reduced),
                        "spp": int(p.samplesperpixel),
                        "planar": int(p.planarconfig),
                    }
                )
            try:
                pg0 = pages[0].asarray()
                ov_shapes = [tuple(p.asarray().shape) for p in pages[1:]]
            except Exception as e:  # pylint: disable=broad-except
                return Violation(PROP, "O5.3", "tifffile-cannot-decode-tiles", {"error": f"{type(e).__name__}: {str(e)[:120]}"})
    except Exception as e:  # pylint: disable=broad-except
        return Violation(PROP, "O5.2", "tifffile-cannot-open", {"error": f"{type(e).__name__}: {str(e)[:120]}"})
    if not info:
        return Violation(PROP, "O5.2", "no-ifd", {})
    levels = len(info) - 1
    if any(not i["reduced"] for i in info[1:]) or info[0]["reduced"]:
        return Violation(PROP, "O5.5", "subfile-types", {"reduced": [i["reduced"] for i in info]})
    H, W = info[0]["H"], info[0]["W"]
    # O5.6 tile sizes multiples of 16
    for li, i in enumerate(info):
        if i["th"] == 0 or i["th"] % 16 or i["tw"] % 16:
            return Violation(PROP, "O5.6", "tile-size-not-multiple-of-16", {"level": li, "tile": [i["th"], i["tw"]]})
    # O5.4 layout rule
    pad = 1 << levels
    if H < ny or W < nx or H % pad or W % pad or H - ny >= pad or W - nx >= pad:
        return Violation(PROP, "O5.4", "page0-size-not-smallest-multiple-of-2^levels", {"page0": [H, W], "source": [ny, nx], "levels": levels})
    eff_chunks = [max(cfg["irregular_chunks"][0]), max(cfg["irregular_chunks"][1])] if cfg.get("irregular_chunks") else cfg["chunks"]
    if levels != _ref_levels(ny, nx, cfg["blocksize"], eff_chunks):
        probes["levels_differ_from_reference_rule"] = 1
        # deciding since round 13: the reference (tile = last blocksize entry rounded up to 16 per axis; halve each image
        # side until it fits its own tile side; the larger count wins) agreed with the writer in 4 500 consecutive runs
        # under three seeds once it used the chunk shape as dask reports it
        return Violation(PROP, "O5.4", "level-count-differs-from-layout-rule", {"levels_in_file": levels, "rule": _ref_levels(ny, nx, cfg["blocksize"], eff_chunks), "source": [ny, nx], "blocksize": cfg["blocksize"], "chunks": eff_chunks})
    if levels > 1:
        probes["multi_level_pyramid"] = 1
    if levels >= 7:
        probes["seven_or_more_levels"] = 1
    if levels > 0 and (H == pad or W == pad):
        probes["side_equals_pow2_levels"] = 1
    if nx < info[0]["tw"] or ny < info[0]["th"]:
        probes["narrower_than_tile"] = 1
    if -(-H // info[0]["th"]) > -(-ny // info[0]["th"]) or -(-W // info[0]["tw"]) > -(-nx // info[0]["tw"]):
        probes["padding_adds_whole_tiles"] = 1
    # O5.5 halving
    for li in range(1, len(info)):
        if (info[li]["H"] * 2, info[li]["W"] * 2) != (info[li - 1]["H"], info[li - 1]["W"]):
            return Violation(PROP, "O5.5", "overview-not-half-of-previous", {"level": li, "sizes": [[i["H"], i["W"]] for i in info]})
    # O5.3 spans
    spans = []
    for li, i in enumerate(info):
        if len(i["offs"]) != len(i["cnts"]):
            return Violation(PROP, "O5.3", "offsets-bytecounts-length-mismatch", {"level": li})
        for t, (o, c) in enumerate(zip(i["offs"], i["cnts"])):
            if c <= 0 or o <= 0:
                return Violation(PROP, "O5.3", "empty-or-missing-tile", {"level": li, "tile": t, "offset": o, "count": c})
            spans.append((o, o + c, li, t))
    spans.sort()
    for (a0, a1, al, at), (b0, b1, bl, bt) in zip(spans, spans[1:]):
        if b0 < a1:
            return Violation(PROP, "O5.3", "tile-spans-overlap", {"a": [al, at, a0, a1], "b": [bl, bt, b0, b1]})
        if b0 > a1:
            return Violation(PROP, "O5.3", "gap-between-tile-spans", {"a": [al, at, a0, a1], "b": [bl, bt, b0, b1]})
    if spans[-1][1] != fsize:
        return Violation(PROP, "O5.3", "last-tile-does-not-end-at-eof", {"end": spans[-1][1], "file_size": fsize})
    # O5.7 overview data before full resolution data
    if levels > 0:
        full_min = min(info[0]["offs"])
        ov_max = max(o + c for i in info[1:] for o, c in zip(i["offs"], i["cnts"]))
        if ov_max > full_min:
            return Violation(PROP, "O5.7", "overview-tile-data-after-full-resolution-data", {"overview_end": ov_max, "full_start": full_min})
    for li, shp in enumerate(ov_shapes, start=1):
        hw = (info[li]["H"], info[li]["W"])
        if hw not in (tuple(shp[:2]), tuple(shp[-2:])):
            return Violation(PROP, "O5.3", "overview-decodes-to-wrong-shape", {"level": li, "decoded": list(shp), "ifd": list(hw)})
    # O5.2 tifffile decode of page 0 equals source padded on the right/bottom only
    want_shape = {"YX": (H, W), "YXS": (H, W, ns), "SYX": (ns, H, W)}[axis]
    got0 = pg0
    if axis == "SYX" and ns == 1 and got0.ndim == 2:
        got0 = got0[np.newaxis]
    if axis == "YXS" and ns == 1 and got0.ndim == 2:
        got0 = got0[..., np.newaxis]
    if tuple(got0.shape) != tuple(want_shape):
        return Violation(PROP, "O5.2", "page0-decoded-shape", {"got": list(pg0.shape), "want": list(want_shape), "axis": axis, "ns": ns, "source": [ny, nx]})
    sl = {"YX": np.s_[:ny, :nx], "YXS": np.s_[:ny, :nx, :], "SYX": np.s_[:, :ny, :nx]}[axis]
    if str(got0.dtype) != file_dtype(dtype):
        return Violation(PROP, "O5.2", "page0-dtype", {"got": str(got0.dtype), "want": file_dtype(dtype)})
    if not np.array_equal(got0[sl], data):
        bad = np.argwhere(got0[sl] != data)
        return Violation(PROP, "O5.2", "tifffile-pixels-differ", {"n": int(len(bad)), "first": bad[0].tolist(), "axis": axis, "ns": ns, "source": [ny, nx]})
    fillv = 0 if nodata is None else nodata
    padmask = np.ones(got0.shape, dtype=bool)
    padmask[sl] = False
    if padmask.any():
        pv = got0[padmask]
        okpad = np.isnan(pv).all() if (isinstance(fillv, float) and fillv != fillv) else bool((pv == np.asarray(fillv).astype(got0.dtype)).all())
        if not okpad:
            probes["pad_cells_not_fill"] = 1
    # ---- GDAL via rasterio
    try:
        with rasterio.open(str(path)) as f:
            pix = f.read()
            f_dtypes = list(f.dtypes)
            f_tr = tuple(f.transform)[:6]
            f_crs = f.crs
            f_nodata = f.nodata
            f_count = f.count
            f_hw = (f.height, f.width)
            f_ovr = [f.overviews(i + 1) for i in range(f.count)]
            f_blocks = f.block_shapes
    except Exception as e:  # pylint: disable=broad-except
        return Violation(PROP, "O5.1", "gdal-cannot-read", {"error": f"{type(e).__name__}: {str(e)[:160]}"})
    if f_count != nb:
        return Violation(PROP, "O5.1", "band-count", {"got": f_count, "want": nb, "axis": axis, "source": [ny, nx]})
    if any(d != file_dtype(dtype) for d in f_dtypes):
        return Violation(PROP, "O5.1", "gdal-dtype", {"got": f_dtypes, "want": file_dtype(dtype)})
    if f_hw != (H, W):
        return Violation(PROP, "O5.1", "gdal-size-differs-from-ifd", {"gdal": list(f_hw), "ifd": [H, W]})
    if axis == "YX":
        src_b = data[np.newaxis]
    elif axis == "SYX":
        src_b = data
    else:
        src_b = np.moveaxis(data, 2, 0)
    if not np.array_equal(pix[:, :ny, :nx], src_b):
        bad = np.argwhere(pix[:, :ny, :nx] != src_b)
        return Violation(PROP, "O5.1", "gdal-pixels-differ", {"n": int(len(bad)), "first": bad[0].tolist(), "axis": axis, "ns": ns, "source": [ny, nx]})
    if not np.allclose(f_tr, aff, rtol=0, atol=1e-9 * max(1.0, abs(aff[0]), abs(aff[1]))):
        return Violation(PROP, "O5.1", "transform-differs", {"got": list(f_tr), "want": aff})
    try:
        import pyproj

        same = f_crs is not None and pyproj.CRS.from_wkt(f_crs.to_wkt()).equals(pyproj.CRS.from_user_input(crs), ignore_axis_order=True)
    except Exception:  # pylint: disable=broad-except
        same = False
    if not same:
        return Violation(PROP, "O5.1", "crs-differs", {"got": str(f_crs)[:80], "want": crs})
    if (nodata is None) != (f_nodata is None):
        return Violation(PROP, "O5.1", "nodata-presence-differs", {"got": repr(f_nodata), "want": repr(nodata)})
    if nodata is not None:
        if not ((f_nodata == nodata) or (f_nodata != f_nodata and nodata != nodata)):
            return Violation(PROP, "O5.1", "nodata-value-differs", {"got": repr(f_nodata), "want": repr(nodata)})
    want_ovr = [1 << k for k in range(1, levels + 1)]
    if any(o != want_ovr for o in f_ovr):
        return Violation(PROP, "O5.5", "gdal-overview-factors", {"got": f_ovr, "want": want_ovr})
    return None


# --------------------------------------------------------------------------------------
# shrinking
# --------------------------------------------------------------------------------------
def candidates(record: dict) -> Iterable[dict]:
    cfg = record["config"]
    ny, nx = record["workload"]["shape"]
    simple_dask = {"workers": 1, "optimize": True, "transport": 0.0, "recompute": 0.0, "stall": 0.0, "policy": None, "trace": "sinks", "rendezvous": False}
    if cfg["dask"] != simple_dask:
        c = copy.deepcopy(record)
        c["config"]["dask"] = dict(simple_dask)
        c["faults"] = []
        yield c
        for k, vv in simple_dask.items():
            if cfg["dask"].get(k) != vv:
                c = copy.deepcopy(record)
                c["config"]["dask"][k] = vv
                yield c
    if cfg["sink"] != "file":
        c = copy.deepcopy(record)
        c["config"]["sink"] = "file"
        c["config"]["place"] = "default"
        yield c
        if cfg["sink"] == "s3-cluster":
            c = copy.deepcopy(record)
            c["config"]["sink"] = "s3"
            yield c
    for k, simple in (
        ("place", "default"), ("dst_exists", False), ("prelude", None), ("noise", False), ("stats", False), ("bigtiff", True), ("nodata", None), ("level", None), ("spill_sz", "default"), ("wpc", "default"),
        ("resampling", "nearest"), ("predictor", "unset"), ("blocksize", [16]), ("blocksize", [32]), ("band_chunk", "all"), ("crs", 4326), ("gbox", "std"),
    ):
        if cfg.get(k) != simple and not (k == "place" and cfg["sink"] != "file"):
            c = copy.deepcopy(record)
            c["config"][k] = simple
            yield c
    dom = set(map(tuple, (CODEC_DOMAIN or {"ok": []})["ok"]))
    for dt, comp in (("uint8", "deflate"), (cfg["dtype"], "deflate"), ("uint8", cfg["compression"])):
        if (dt, comp) != (cfg["dtype"], cfg["compression"]) and (dt, comp, cfg["predictor"]) in dom:
            c = copy.deepcopy(record)
            c["config"]["dtype"], c["config"]["compression"] = dt, comp
            if dt != cfg["dtype"] and cfg["nodata"] == "nan":
                c["config"]["nodata"] = None
            yield c
    if cfg["axis"] != "YX":
        c = copy.deepcopy(record)
        c["config"]["axis"], c["config"]["ns"] = "YX", 0
        yield c
        for n in (1, 2):
            if n < cfg["ns"]:
                c = copy.deepcopy(record)
                c["config"]["ns"] = n
                yield c
    for ax, n in enumerate((ny, nx)):
        for nv in sorted({1, 16, 17, n // 2, n - 1}):
            if 1 <= nv < n:
                c = copy.deepcopy(record)
                c["workload"]["shape"][ax] = nv
                yield c
    if cfg.get("irregular_chunks"):
        c = copy.deepcopy(record)
        c["config"]["irregular_chunks"] = None
        yield c
    for k in ("big_endian_input", "gdal_level_kw"):
        if cfg.get(k):
            c = copy.deepcopy(record)
            c["config"][k] = False
            yield c
    for ax in range(2):
        if cfg["chunks"][ax] < 200:
            c = copy.deepcopy(record)
            c["config"]["chunks"][ax] = 200
            yield c
