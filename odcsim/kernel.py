"""ThreadSim: baton-passing real threads under a central, seeded scheduler.

Exactly one simulated thread runs at a time.  A thread hands the baton back when it parks:
at every traced source line (sys.settrace) of the configured files, at explicit seam calls
made by the fakes, and when it would block on a simulated lock / variable.  Which thread is
resumed next is decided by the caller through a ``Chooser``; this module never draws
randomness and never reads a clock.
"""

from __future__ import annotations

import os
import sys
import threading
from typing import Any, Callable, Dict, List, Optional, Tuple

from .core import HarnessError

_real_allocate_lock = threading.Lock
_real_RLock = threading.RLock

CURRENT: Optional["Kernel"] = None  # the kernel of the run in progress (one per process)
WATCHDOG_S = 60.0


class SimKilled(BaseException):
    """Raised inside a simulated thread to unwind it when a run is abandoned."""


class Deadlock(Exception):
    pass


class _Rec:
    __slots__ = ("name", "state", "label", "ev", "result", "error", "blocked_on", "thread", "killed", "deadline", "timed_out", "steps")

    def __init__(self, name: str):
        self.name = name
        self.state = "parked"  # parked | running | done
        self.label: Any = "start"
        self.ev = threading.Event()
        self.result: Any = None
        self.error: Optional[BaseException] = None
        self.blocked_on: Any = None
        self.thread: Optional[threading.Thread] = None
        self.killed = False
        self.deadline: Optional[float] = None
        self.timed_out = False
        self.steps = 0


HARNESS_DIR = os.path.dirname(os.path.abspath(__file__))
# callers from which a traced frame may be entered and still be pre-empted
_OK_CALLER_PARTS = ("/odc/geo/", HARNESS_DIR, "/dask/_task_spec.py", "/dask/bag/core.py", "/dask/utils.py", "/dask/core.py", "/cachetools/", "/dask/delayed.py", "/dask/local.py")
# frames anywhere up the stack that are known to hold real locks while calling back
_NO_PREEMPT_BELOW = ("/dask/tokenize.py", "/dask/base.py")


class Kernel:
    def __init__(self, trace_files: Tuple[str, ...] = (), seam_funcs: Tuple[Tuple[str, str], ...] = (), line_filter: Optional[Callable[[str, str, int], bool]] = None):
        self.trace_files = frozenset(trace_files)
        self.seam_funcs = frozenset(seam_funcs)
        self._seam_files = frozenset(f for f, _ in seam_funcs)
        self.line_filter = line_filter
        self.threads: Dict[str, _Rec] = {}
        self.sched_ev = threading.Event()
        self.tls = threading.local()
        self.now = 0.0
        self.steps = 0
        self.switches = 0
        self._last_run: Optional[str] = None
        self._short: Dict[str, str] = {}

    # ------------------------------------------------------------------ thread side
    def me(self) -> Optional[str]:
        return getattr(self.tls, "me", None)

    def park(self, label: Any, blocked_on: Any = None, deadline: Optional[float] = None) -> None:
        name = getattr(self.tls, "me", None)
        if name is None:
            return  # not a simulated thread: seams are no-ops
        rec = self.threads[name]
        if rec.killed:
            raise SimKilled()
        if getattr(self.tls, "nopark", 0):
            return
        rec.state = "parked"
        rec.label = label
        rec.blocked_on = blocked_on
        rec.deadline = deadline
        rec.ev.clear()
        self.sched_ev.set()
        rec.ev.wait()
        if rec.killed:
            raise SimKilled()

    def _short_name(self, fn: str) -> str:
        s = self._short.get(fn)
        if s is None:
            s = self._short[fn] = os.path.basename(fn)
        return s

    def _tracer(self, frame, event, arg):  # global trace function: 'call' events
        code = frame.f_code
        fn = code.co_filename
        if fn in self.trace_files:
            if not self._may_preempt(frame):
                return None
            return self._line_tracer
        if fn in self._seam_files and (fn, code.co_name) in self.seam_funcs:
            if self._may_preempt(frame):
                self.park(("seam", code.co_name))
        return None

    def _may_preempt(self, frame) -> bool:
        back = frame.f_back
        if back is not None:
            bfn = back.f_code.co_filename
            if bfn not in self.trace_files and not any(p in bfn for p in _OK_CALLER_PARTS):
                return False
        f = back
        depth = 0
        while f is not None and depth < 60:
            bfn = f.f_code.co_filename
            if any(p in bfn for p in _NO_PREEMPT_BELOW):
                return False
            f = f.f_back
            depth += 1
        return True

    def _line_tracer(self, frame, event, arg):
        if event == "line":
            code = frame.f_code
            if self.line_filter is None or self.line_filter(code.co_filename, code.co_name, frame.f_lineno):
                self.park(("line", self._short_name(code.co_filename), code.co_name, frame.f_lineno))
        return self._line_tracer

    # ------------------------------------------------------------------ scheduler side
    def spawn(self, name: str, fn: Callable[[], Any]) -> None:
        if name in self.threads:
            raise HarnessError(f"duplicate simulated thread {name}")
        rec = _Rec(name)

        def run():
            self.tls.me = name
            rec.ev.wait()
            try:
                if rec.killed:
                    raise SimKilled()
                if self.trace_files or self.seam_funcs:
                    sys.settrace(self._tracer)
                rec.result = fn()
            except SimKilled:
                pass
            except BaseException as e:  # pylint: disable=broad-except
                rec.error = e
            finally:
                sys.settrace(None)
                rec.state = "done"
                self.sched_ev.set()

        rec.thread = threading.Thread(target=run, name=f"sim-{name}", daemon=True)
        self.threads[name] = rec
        rec.thread.start()

    def step(self, name: str) -> _Rec:
        """Resume ``name`` until it parks again or finishes."""
        rec = self.threads[name]
        if rec.state != "parked":
            raise HarnessError(f"step({name}) in state {rec.state}")
        rec.state = "running"
        rec.blocked_on = None
        rec.deadline = None
        self.sched_ev.clear()
        rec.ev.set()
        if not self.sched_ev.wait(WATCHDOG_S):
            import faulthandler

            faulthandler.dump_traceback(file=sys.stderr)
            raise HarnessError(f"watchdog: simulated thread {name} neither parked nor finished within {WATCHDOG_S}s (untracked blocking primitive?) last label={rec.label}")
        self.steps += 1
        rec.steps += 1
        if self._last_run is not None and self._last_run != name:
            self.switches += 1
        self._last_run = name
        return rec

    def fire_timeout(self, name: str) -> None:
        rec = self.threads[name]
        if rec.state != "parked" or rec.deadline is None:
            raise HarnessError(f"fire_timeout({name}) without a pending deadline")
        self.now = max(self.now, rec.deadline)
        rec.timed_out = True
        rec.blocked_on = None
        rec.deadline = None

    def runnable(self) -> List[str]:
        out = []
        for n in sorted(self.threads):
            r = self.threads[n]
            if r.state == "parked" and (r.blocked_on is None or r.blocked_on.free_for(n)):
                out.append(n)
        return out

    def timers(self) -> List[str]:
        return [n for n in sorted(self.threads) if self.threads[n].state == "parked" and self.threads[n].deadline is not None and self.threads[n].blocked_on is not None and not self.threads[n].blocked_on.free_for(n)]

    def live(self) -> List[str]:
        return [n for n in sorted(self.threads) if self.threads[n].state != "done"]

    def enabled_events(self) -> List[Tuple[str, str]]:
        return [("run", n) for n in self.runnable()] + [("timeout", n) for n in self.timers()]

    def apply_event(self, ev: Tuple[str, str]) -> _Rec:
        kind, name = ev
        if kind == "timeout":
            self.fire_timeout(name)
            return self.threads[name]
        return self.step(name)

    def reap(self, name: str) -> _Rec:
        rec = self.threads.pop(name)
        if rec.thread is not None:
            rec.thread.join(5)
        return rec

    def shutdown(self) -> None:
        """Unwind every simulated thread that is still parked (abandoned run)."""
        for name, rec in list(self.threads.items()):
            if rec.state == "done":
                continue
            rec.killed = True
            self.sched_ev.clear()
            rec.ev.set()
            if rec.thread is not None:
                rec.thread.join(10)
        self.threads.clear()


def activate(k: Optional[Kernel]) -> None:
    global CURRENT  # pylint: disable=global-statement
    CURRENT = k


def seam(label: Any) -> None:
    """Pre-emption point called by fakes; no-op outside simulated threads."""
    k = CURRENT
    if k is not None:
        k.park(label)


class nopark:
    """Context manager: the current simulated thread is not pre-empted inside."""

    def __enter__(self):
        k = CURRENT
        if k is not None:
            k.tls.nopark = getattr(k.tls, "nopark", 0) + 1
        return self

    def __exit__(self, *a):
        k = CURRENT
        if k is not None:
            k.tls.nopark = getattr(k.tls, "nopark", 1) - 1


# --------------------------------------------------------------------------------------
# cooperative locks
# --------------------------------------------------------------------------------------
class CoopLock:
    """Lock that never blocks a simulated thread for real: an acquire on a held lock parks
    the thread as *blocked* until a release.  From any other thread it is an ordinary lock."""

    def __init__(self, reentrant: bool = False, name: str = "lock"):
        self._real = _real_RLock() if reentrant else _real_allocate_lock()
        self.reentrant = reentrant
        self.owner: Optional[str] = None
        self.count = 0
        self.name = name
        self.contended = 0
        self.acquisitions = 0

    def free_for(self, name: str) -> bool:
        return self.owner is None or (self.reentrant and self.owner == name)

    def _sim(self) -> Tuple[Optional[Kernel], Optional[str]]:
        k = CURRENT
        if k is None:
            return None, None
        return k, k.me()

    def acquire(self, blocking: bool = True, timeout: float = -1) -> bool:
        k, me = self._sim()
        if me is None:
            return self._real.acquire(blocking, timeout)
        assert k is not None
        waited = False
        while not self.free_for(me):
            if not blocking:
                return False
            if not waited:
                self.contended += 1
                waited = True
            k.park(("lock.wait", self.name), blocked_on=self)
        self.owner = me
        self.count += 1
        self.acquisitions += 1
        return True

    def release(self) -> None:
        k, me = self._sim()
        if me is None:
            self._real.release()
            return
        if self.owner != me:
            raise RuntimeError("release of un-acquired lock")
        self.count -= 1
        if self.count == 0:
            self.owner = None

    def locked(self) -> bool:
        return self.owner is not None or (not self.reentrant and self._real.locked())

    def __enter__(self):
        self.acquire()
        return self

    def __exit__(self, *a):
        self.release()


_PATCHED = False
COOP_LOCKS_CREATED = [0]


def install_lock_patch() -> None:
    """Replace threading.Lock / threading.RLock by caller-sensitive factories: code under
    odc/geo/ gets cooperative locks, everybody else gets the real thing.  Must run before
    odc.geo is imported so that ``from threading import Lock`` binds the factory."""
    global _PATCHED  # pylint: disable=global-statement
    if _PATCHED:
        return
    _PATCHED = True

    def _from_repo() -> bool:
        f = sys._getframe(2)  # pylint: disable=protected-access
        return "/odc/geo/" in f.f_code.co_filename.replace("\\", "/")

    def Lock(*a, **kw):  # pylint: disable=invalid-name
        if _from_repo():
            COOP_LOCKS_CREATED[0] += 1
            return CoopLock(False)
        return _real_allocate_lock(*a, **kw)

    def RLock(*a, **kw):  # pylint: disable=invalid-name
        if _from_repo():
            COOP_LOCKS_CREATED[0] += 1
            return CoopLock(True)
        return _real_RLock(*a, **kw)

    threading.Lock = Lock  # type: ignore
    threading.RLock = RLock  # type: ignore
    if "odc.geo" in sys.modules:
        raise HarnessError("install_lock_patch() must run before odc.geo is imported")


def run_threads(kernel: Kernel, chooser, step_budget: int = 20000, log=None, on_done: Optional[Callable[[str, _Rec], None]] = None) -> Dict[str, _Rec]:
    """Drive all spawned threads to completion under ``chooser``.  Returns the finished
    records.  Raises Deadlock when every live thread is blocked without a timer, and
    Deadlock("budget") when the step budget is exhausted."""
    done: Dict[str, _Rec] = {}
    n = 0
    while True:
        for name in [n_ for n_, r in kernel.threads.items() if r.state == "done"]:
            rec = kernel.reap(name)
            done[name] = rec
            if on_done is not None:
                on_done(name, rec)
        if not kernel.threads:
            return done
        en = kernel.enabled_events()
        if not en:
            raise Deadlock("all live threads blocked: " + ", ".join(f"{n_}@{r.label}" for n_, r in sorted(kernel.threads.items())))
        ev = chooser.choose(en)
        rec = kernel.apply_event(ev)
        n += 1
        if log is not None and ev[0] == "timeout":
            log.add("timeout", ev[1])
        if n > step_budget:
            raise Deadlock("budget")
