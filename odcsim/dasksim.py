"""DaskSim: a dask scheduler whose every decision is taken by a Chooser.

``dask.compute(x, scheduler=DaskSim(...))`` hands us the (optimised or not) graph.  We
materialise it, cull it to the requested keys, and execute it in an order -- and, with
K > 1 virtual workers, an interleaving -- chosen by the run's Chooser.

Fault kinds (all legal behaviours of real dask deployments):
  reorder      any topological order, several policies
  concurrency  K workers; tasks are real threads under the baton kernel, pre-empted at seams
  stall        a parked worker is skipped for a number of events
  transport    a task result reaches a consumer through a pickle round trip; optionally the
               task object itself is pickled (cluster mode: every worker gets its own copy of
               what the task closes over)
  recompute    a task declared pure by the engine is executed twice, either result is kept
"""

from __future__ import annotations

import pickle
import re
from typing import Any, Callable, Dict, List, Optional, Tuple

import cloudpickle
from dask._task_spec import convert_legacy_graph
from dask.core import flatten

from .core import Chooser, Digest, HarnessError
from .kernel import Deadlock, Kernel, activate

_HEX = re.compile(r"-?[0-9a-f]{8}-[0-9a-f]{4}-[0-9a-f]{4}-[0-9a-f]{4}-[0-9a-f]{12}|-?[0-9a-f]{16,}")


SOURCE_LAYER_PREFIXES = ("pix-",)  # name the C05 engine gives to the source array it feeds in


def _layer_of(key: Any) -> str:
    name = key[0] if isinstance(key, tuple) else key
    return str(name)


def _idx_of(key: Any) -> Tuple:
    rest = tuple(key[1:]) if isinstance(key, tuple) else ()
    return tuple(r if isinstance(r, (int, str)) else str(r) for r in rest)


def _prefix(layer_name: str) -> str:
    """Token-free layer prefix.  Names dask gives to fused tasks list the fused operations; whether an operation
    that occurs twice in a chain is listed once or twice ("pix-astype" / "pix-astype-astype") depends on the
    iteration order of sets of key strings inside dask's fusion, i.e. on tokens - repeated words are dropped."""
    if layer_name.startswith(SOURCE_LAYER_PREFIXES):
        return SOURCE_LAYER_PREFIXES[0].rstrip("-")  # whatever was fused into a source chunk: see DaskSim.__call__
    words: List[str] = []
    for w in _HEX.sub("", layer_name).split("-"):
        if not words or words[-1] != w or not w:
            words.append(w)
    return "-".join(words)


class Canon:
    """Canonical, token-free task names: ``(layer-prefix#ordinal, *indices)``.

    Layers whose names differ only by a token are told apart by a structural signature
    (Weisfeiler-Lehman refinement over the task graph: own prefix and indices, labels of
    dependencies and of dependents), never by the token itself -- tokens may depend on
    temp paths or uuids, the structure does not."""

    ROUNDS = 6
    MAX_ROUNDS = 48

    def __init__(self, dsk: Dict[Any, Any], deps: Dict[Any, List[Any]], dependents: Dict[Any, List[Any]], depth: Dict[Any, int], requested: Optional[List[Any]] = None):
        from .core import H

        # a requested key carries its position in the request: two structurally identical sub-graphs computed by one
        # dask.compute(a, b) (paired C13 requests) are told apart by which output they feed, never by their tokens
        pos = {k: i for i, k in enumerate(requested or [])}
        lab = {k: H(_prefix(_layer_of(k)), _idx_of(k), pos.get(k, -1)) for k in dsk}
        sdeps = {k: tuple(set(v)) for k, v in deps.items()}
        sdpts = {k: tuple(set(v)) for k, v in dependents.items()}
        # refine until the partition stops getting finer (at least ROUNDS rounds: two layers may differ only far
        # downstream, e.g. the full-resolution and the overview branch of a COG graph behind identical first hops)
        ndistinct = len(set(lab.values()))
        for rnd in range(self.MAX_ROUNDS):
            lab = {k: hash((lab[k], tuple(sorted(lab[d] for d in sdeps[k])), tuple(sorted(lab[d] for d in sdpts[k])))) for k in dsk}
            n2 = len(set(lab.values()))
            if rnd + 1 >= self.ROUNDS and n2 == ndistinct:
                break
            ndistinct = n2
        layers: Dict[str, List[Any]] = {}
        for k in dsk:
            layers.setdefault(_layer_of(k), []).append(k)
        by_prefix: Dict[str, List[Tuple[int, int, int, str]]] = {}
        for pos, (ln, keys) in enumerate(layers.items()):
            sig = hash(tuple(sorted(lab[k] for k in keys)))
            by_prefix.setdefault(_prefix(ln), []).append((min(depth[k] for k in keys), sig, pos, ln))
        self.layer: Dict[str, str] = {}
        self.ambiguous = 0
        for prefix, lst in by_prefix.items():
            lst.sort()
            for i, (d, sig, _, ln) in enumerate(lst):
                if i and lst[i - 1][:2] == (d, sig):
                    self.ambiguous += 1  # structurally identical layers: order of appearance decides
                self.layer[ln] = prefix if len(lst) == 1 else f"{prefix}#{i}"

    def __call__(self, key: Any) -> Tuple:
        return (self.layer[_layer_of(key)], *_idx_of(key))


def _sort_key(c: Tuple) -> Tuple:
    return tuple((0, x) if isinstance(x, int) else (1, str(x)) for x in c)


class DaskSim:
    """Callable usable as ``scheduler=`` for dask.compute/persist."""

    def __init__(
        self,
        chooser: Chooser,
        log: Digest,
        workers: int = 1,
        transport: float = 0.0,
        task_transport: bool = False,
        recompute: float = 0.0,
        pure: Optional[Callable[[Tuple, Dict[Any, Any], Any], bool]] = None,
        stall: float = 0.0,
        kernel: Optional[Kernel] = None,
        step_budget: int = 200000,
        on_task: Optional[Callable[[Tuple, Any], None]] = None,
        log_tasks: bool = True,
        tag: str = "",
        real: Optional[str] = None,
        rendezvous: Optional[Callable[[Any], bool]] = None,
    ):
        # rendezvous(label) -> True for park labels of the code region in which concurrent tasks should meet:
        # while exactly one worker is parked there and anything else can run, that worker is held back (bounded),
        # so that a second worker arrives while the first is still inside - first writes through a shared sink
        # overlap in a good share of the runs instead of once in a thousand
        self.rendezvous = rendezvous
        self.rendezvous_budget = 300
        self.rendezvous_met = 0
        self.tag = tag
        self.real = real  # "sync" / "threads": hand the graph to dask's own scheduler (conformance self-test only)
        self.ch = chooser
        self.log = log
        self.workers = max(1, workers)
        self.transport = transport
        self.task_transport = task_transport
        self.recompute = recompute
        self.pure = pure or (lambda c, data, value: False)
        self.ambiguous_layers = 0
        self.stall = stall
        self.kernel = kernel
        self.step_budget = step_budget
        self.on_task = on_task
        self.log_tasks = log_tasks
        self.ntasks = 0
        self.steps = 0
        self.order: List[Tuple] = []
        self.unpicklable = 0
        self.layers: List[str] = []
        self.max_parallel = 0

    # -- helpers
    def _copy(self, v: Any) -> Any:
        try:
            return pickle.loads(cloudpickle.dumps(v))
        except Exception:  # pylint: disable=broad-except
            self.unpicklable += 1  # the properties promise nothing about picklability
            return v

    def __call__(self, dsk: Any, keys: Any, **kw: Any) -> Any:
        # pylint: disable=too-many-locals,too-many-branches,too-many-statements
        if self.real:
            # conformance mode: dask's own local schedulers execute the graph; the engine's oracles
            # then judge a run in which DaskSim took no decision at all
            import dask.local
            import dask.threaded

            self.ntasks = len(dsk.__dask_graph__()) if not isinstance(dsk, dict) else len(dsk)
            if self.real == "threads":
                return dask.threaded.get(dsk, keys, num_workers=4, **kw)
            return dask.local.get_sync(dsk, keys, **kw)
        if not isinstance(dsk, dict):
            dsk = dsk.__dask_graph__()
        dsk = convert_legacy_graph(dict(dsk))
        need = set()
        stack = list(flatten(keys)) if isinstance(keys, list) else [keys]
        while stack:
            k = stack.pop()
            if k in need:
                continue
            if k not in dsk:
                raise HarnessError(f"requested key {k!r} not in graph")
            need.add(k)
            stack.extend(dsk[k].dependencies)
        dsk = {k: dsk[k] for k in need}  # cull: every real scheduler does
        deps = {k: list(v.dependencies) for k, v in dsk.items()}
        dependents: Dict[Any, List[Any]] = {k: [] for k in dsk}
        for k, ds in deps.items():
            for d in ds:
                dependents[d].append(k)
        # depth for canonical layer numbering
        depth: Dict[Any, int] = {}
        indeg = {k: len(set(ds)) for k, ds in deps.items()}
        frontier = [k for k, n in indeg.items() if n == 0]
        for k in frontier:
            depth[k] = 0
        q = list(frontier)
        while q:
            k = q.pop()
            for d in set(dependents[k]):
                depth[d] = max(depth.get(d, 0), depth[k] + 1)
                indeg[d] -= 1
                if indeg[d] == 0:
                    q.append(d)
        if len(depth) != len(dsk):
            raise HarnessError("cycle in task graph")
        canon = Canon(dsk, deps, dependents, depth, requested=list(flatten(keys)) if isinstance(keys, list) else [keys])
        self.ambiguous_layers = canon.ambiguous
        cname = {k: canon(k) for k in dsk}
        # Source chunks are named after what consumes them.  dask fuses the source getter with the first operations on
        # it and names the fused task after the operations fused in; for a chain source -> astype -> astype (bool COG
        # input) the spelling ("pix-astype" / "pix-astype-astype") and hence the layer a chunk lands in depends on the
        # iteration order of sets of key strings inside dask - on per-run tokens.  Structure and labels do not
        # (prefixes are compared with repeated words collapsed); only the name would.
        for k in dsk:
            if _layer_of(k).startswith(SOURCE_LAYER_PREFIXES) and dependents[k]:
                cname[k] = ("src<-", *_idx_of(k), *(x for d in sorted({cname_d for cname_d in (canon(d) for d in set(dependents[k]))}, key=_sort_key) for x in d))
        if __import__("os").environ.get("ODCSIM_DUMP_GRAPH"):
            for row in sorted((str(cname[k]), sorted(str(cname[d]) for d in set(deps[k]))) for k in dsk):
                print("G", row)
        if self.tag:
            cname = {k: (f"{self.tag}:{c[0]}", *c[1:]) for k, c in cname.items()}
        if len(set(cname.values())) != len(cname):
            raise HarnessError("canonical task names collide")
        by_c = {c: k for k, c in cname.items()}
        self.layers = sorted(set(canon.layer.values()))

        waiting = {k: set(ds) for k, ds in deps.items() if ds}
        ready: List[Tuple] = sorted((cname[k] for k in dsk if not deps[k]), key=_sort_key)
        cache: Dict[Any, Any] = {}
        refs = {k: len(set(dependents[k])) for k in dsk}
        ch, log = self.ch, self.log
        kernel = self.kernel
        threaded = self.workers > 1 or kernel is not None
        if threaded and kernel is None:
            kernel = Kernel()
        running: Dict[str, Any] = {}  # worker thread name -> key
        stalled: Dict[str, int] = {}
        wid = 0

        def prepare(k):
            task = dsk[k]
            data = {}
            for d in set(deps[k]):
                v = cache[d]
                if self.transport and ch.fault("transport", ("edge", *cname[d], "->", *cname[k]), self.transport):
                    v = self._copy(v)
                data[d] = v
            if self.task_transport:
                ch.count("task_transport")
                task = self._copy(task)
            return task, data

        def finish(k, value):
            c = cname[k]
            if self.on_task is not None:
                self.on_task(c, value)
            cache[k] = value
            newly = []
            for d in set(dependents[k]):
                waiting[d].discard(k)
                if not waiting[d]:
                    del waiting[d]
                    newly.append(cname[d])
            ready.extend(sorted(newly, key=_sort_key))

        def run_inline(k):
            task, data = prepare(k)
            v = task(data)
            if self.recompute and self.pure(cname[k], data, v) and ch.fault("recompute", cname[k], self.recompute):
                task2, data2 = prepare(k)
                v2 = task2(data2)
                if ch.fault("recompute_keep_second", cname[k], 0.5):
                    v = v2
            return v

        if threaded:
            activate(kernel)
        try:
            while ready or running:
                self.steps += 1
                if self.steps > self.step_budget:
                    raise Deadlock("budget")
                events: List[Tuple] = []
                if len(running) < self.workers:
                    events += [("start", *c) for c in ready]
                if threaded:
                    assert kernel is not None
                    for kind, n in kernel.enabled_events():
                        if n in running and stalled.get(n, 0) <= 0:
                            events.append((kind, n))
                    if not events and stalled:
                        stalled.clear()
                        continue
                    if self.rendezvous is not None and self.rendezvous_budget > 0:
                        inside = [e[1] for e in events if e[0] == "run" and self.rendezvous(kernel.threads[e[1]].label)]
                        if len(inside) == 1 and len(events) > 1:
                            self.rendezvous_budget -= 1
                            events = [e for e in events if not (e[0] == "run" and e[1] == inside[0])]
                        elif len(inside) >= 2:
                            self.rendezvous_met += 1
                if not events:
                    raise Deadlock("all workers blocked: " + ", ".join(f"{n}@{kernel.threads[n].label}" for n in running) if kernel else "no events")
                for n in list(stalled):
                    stalled[n] -= 1
                ev = ch.choose(events)
                if ev[0] == "start":
                    c = tuple(ev[1:])
                    ready.remove(c)
                    k = by_c[c]
                    self.ntasks += 1
                    self.order.append(c)
                    if self.log_tasks:
                        log.add("start", c)
                    if not threaded:
                        finish(k, run_inline(k))
                        continue
                    assert kernel is not None
                    wid += 1
                    name = f"{self.tag}w{wid}"
                    kernel.spawn(name, lambda k=k: run_inline(k))
                    running[name] = k
                    self.max_parallel = max(self.max_parallel, len(running))
                    continue
                assert kernel is not None
                name = ev[1]
                if ev[0] == "run" and self.stall and ch.fault("stall", (name, self.steps), self.stall):
                    stalled[name] = 1 + (self.steps % 5)
                    continue
                rec = kernel.apply_event((ev[0], name))
                if rec.state == "done":
                    k = running.pop(name)
                    kernel.reap(name)
                    if rec.error is not None:
                        raise rec.error
                    if self.log_tasks:
                        log.add("done", cname[k])
                    finish(k, rec.result)
        finally:
            if threaded and kernel is not None:
                if self.kernel is None:
                    kernel.shutdown()
                    activate(None)

        def get(k):
            if isinstance(k, list):
                return [get(x) for x in k]
            return cache[k]

        return get(keys)
