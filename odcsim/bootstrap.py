"""Process bootstrap: import heavy dependencies with their real locks, then import odc.geo
with caller-sensitive cooperative locks in place (DESIGN 4.3, lock substitution)."""

from __future__ import annotations

import sys
import warnings

_BOOTED = False


def boot() -> None:
    global _BOOTED  # pylint: disable=global-statement
    if _BOOTED:
        return
    _BOOTED = True
    warnings.filterwarnings("ignore")
    # pylint: disable=import-outside-toplevel,unused-import
    import affine, cachetools, cloudpickle, dask, dask.array, dask.bag, dask.delayed, numpy, pyproj, shapely, xarray  # noqa
    import rasterio, tifffile, imagecodecs  # noqa
    import rasterio.warp  # noqa

    try:
        import distributed  # noqa
    except Exception:  # pragma: no cover
        pass
    from . import kernel

    if "odc.geo" in sys.modules:
        from .core import HarnessError

        raise HarnessError("odc.geo imported before bootstrap")
    kernel.install_lock_patch()
    import odc.geo, odc.geo.xr, odc.geo.cog, odc.geo._dask, odc.geo._blocks, odc.geo.warp, odc.geo.gcp, odc.geo.gridspec  # noqa
    import odc.geo.cog._mpu, odc.geo.cog._s3, odc.geo.cog._mpu_fs, odc.geo.cog._tifffile, odc.geo.cog._shared, odc.geo.crs  # noqa

    # dask's tokenize lock is re-entered through __dask_tokenize__ of repo objects; make it cooperative
    try:
        import dask.tokenize as dt

        if hasattr(dt, "tokenize_lock"):
            dt.tokenize_lock = kernel.CoopLock(True, name="dask.tokenize")
    except Exception:  # pragma: no cover
        pass
    dask.config.set({"array.slicing.split_large_chunks": False})
