"""C19 -- value objects: equality, hashing, pickling, tokens and caches are coherent.

HistorySim: a seeded history of construct / composite / copy / pickle / transformer / drop /
gc / churn / racing-construction steps runs against the real module-level caches of
odc.geo.crs.  Every history executes in a child *forked* from a process that has imported
everything but has never constructed a CRS, so both caches start pristine without the
harness ever touching them.  Racing constructions run as ThreadSim threads pre-empted at
every line of crs.py and cachetools/_cached.py.  Oracles O19.1 - O19.7 (DESIGN.md section 5).
"""

from __future__ import annotations

import copy
import gc
import itertools
import math
import os
import pickle
import random
import weakref
from typing import Any, Dict, Iterable, List, Optional, Tuple

from . import kernel as K
from .core import Chooser, Digest, HarnessError, Outcome, Violation, classify_exception, draw_policy, jsonable, load_known_findings, match_known

PROP = "C19"
RULE = (
    "each run is a history of 3-25 steps over a pool of <=16 live values: CRS construction through 15 spec routes for 15 EPSG codes, 4 custom "
    "definitions (one compound, one on which pyproj's == is not transitive) and 6 PROJ strings, composite values (BoundingBox, Geometry, GeoBox, GCPGeoBox, GeoboxTiles, GridSpec, Tiles, VariableSizedTiles, XY family) drawn "
    "from families of near-identical members, copy / pickle, transformer requests checked against pyproj, reference drops, gc.collect(), address "
    "churn, and racing constructions by 2-3 pre-empted threads; after every step the laws are checked for the new values against the whole pool. "
    "Non-trivial: at least 2 CRS values and one of {transformer, drop+gc, race, composite}. Distinct: the step list plus race interleaving."
)
DISTINCT_MEASURE = "hash of (history steps, thread interleaving of racing constructions)"
COMPONENTS_REAL = [
    "odc.geo.crs (CRS, _make_crs and its module cache, _make_crs_transform and its identity-keyed cache), cachetools.cached",
    "odc.geo.geom (BoundingBox, Geometry), odc.geo.geobox (GeoBox, GeoboxTiles), odc.geo.gcp (GCPMapping, GCPGeoBox), odc.geo.roi (Tiles, VariableSizedTiles), odc.geo.types (XY family), odc.geo.gridspec.GridSpec",
    "pyproj, pickle, copy, dask.base.tokenize, the CPython allocator and garbage collector",
]
COMPONENTS_STUB = ["thread scheduler for racing constructions (ThreadSim)", "gc timing (disabled, collected only at recorded steps)"]
HAZARD_PROBES = ['id_reuse_observed', 'orphan_pyproj_object_died', 'race_both_threads_missed_cache', 'transformer_requested_while_dead_address_available']
ASSUMPTIONS = [
    "reference transformers are built by pyproj from EPSG codes / the custom definitions (1 m / 1e-5 degree tolerance, confirmed against a transformer built from the two CRSs' own WKT before reporting)",
    "object-identity reuse depends on the allocator: provoked by churn and counted (probe id_reuse_observed), not assumed",
    "pair laws are checked within a type (same class)",
    "expected equality of two CRSs is pyproj's own == on reference objects built outside the library from the same definition and the same material (code, WKT text, PROJJSON, user text); where pyproj itself is non-transitive the triple is classified (D19l), never excused wholesale",
]

# 2463 and 20064 are one definition under two EPSG codes (pyproj: equal)
# 7005 and 20137 share zone and ellipsoid and differ in datum: pyproj calls each equal to their common
# ellipsoid-only PROJ string (PROJ4[7005]) and unequal to each other
CODES = [4326, 3857, 3577, 3035, 32633, 32601, 32660, 2193, 27700, 32755, 4283, 2463, 20064, 7005, 20137]
TRANSFORM_CODES = [4326, 3857, 3577, 3035, 32633, 32601, 32660, 2193, 32755, 4283]  # no datum-shift ambiguity
CHURN_CODES = list(range(32602, 32660)) + list(range(32701, 32755))
CUSTOM = {
    "laea": "+proj=laea +lat_0=10 +lon_0=20 +x_0=0 +y_0=0 +datum=WGS84 +units=m +no_defs +type=crs",
    "tmerc": "+proj=tmerc +lat_0=0 +lon_0=33 +k=0.9996 +x_0=500000 +y_0=0 +datum=WGS84 +units=m +no_defs +type=crs",
    "compound": "EPSG:4326+5773",  # horizontal + vertical, spelled with EPSG codes
    # UTM 33N built from the conversion alone (base CRS axes in lon, lat order), as PROJJSON text: pyproj calls it equal to
    # the PROJ string of 32633 and unequal to EPSG:32633.  Its WKT does not keep the base axis order, so only JSON routes are lossless
    "utm33conv": open(os.path.join(os.path.dirname(os.path.abspath(__file__)), "data", "utm33conv.json"), encoding="utf8").read().strip(),
    "esri54009": "ESRI:54009",
    "ogc84": "OGC:CRS84",
    "esri102001": "ESRI:102001",
}
CUSTOM_ROUTES_FOR = {"utm33conv": ["json", "pyproj_json", "copy", "pickle", "user", "pyproj_user"]}
# codes of authorities other than EPSG, exactly as typed and in other letter cases (routes user_lc / user_mc)
AUTH_CODES = {"esri54009": "ESRI:54009", "ogc84": "OGC:CRS84", "esri102001": "ESRI:102001"}
CASE_ROUTES = ["user", "user", "user_lc", "user_lc", "user_mc", "pyproj_user", "wkt2019", "json", "pyproj_wkt", "copy", "pickle"]
OBJECT_OR_TEXT_ROUTES = {"wkt2019", "wkt2018", "json", "pyproj_epsg", "pyproj_wkt", "pyproj_json", "pyproj_user"}  # cache key is a pyproj object or a WKT text
# triples on which pyproj's own == is not transitive (checked at start-up, see parent_init); [code, route-or-None]
CHAINS = [
    [[7005, None], [7005, "proj4"], [20137, None]],
    [[32633, None], [32633, "proj4"], ["utm33conv", None]],
]
PROJ4 = {  # lossy spellings: no equality with the EPSG-built CRS is expected, the laws still apply
    4326: "+proj=longlat +datum=WGS84 +no_defs",
    32633: "+proj=utm +zone=33 +datum=WGS84 +units=m +no_defs",
    32601: "+proj=utm +zone=1 +datum=WGS84 +units=m +no_defs",
    3857: "+proj=merc +a=6378137 +b=6378137 +lat_ts=0 +lon_0=0 +x_0=0 +y_0=0 +k=1 +units=m +nadgrids=@null +wktext +no_defs",
    4283: "+proj=longlat +ellps=GRS80 +no_defs",
    7005: "+proj=utm +zone=37 +a=6378249.145 +rf=293.465 +units=m +no_defs +type=crs",
}
ROUTES = ["int", "EPSG", "epsg", "Epsg", "EPSG0", "wkt2019", "wkt2018", "json", "pyproj_epsg", "pyproj_wkt", "pyproj_json", "copy", "pickle"]
CUSTOM_ROUTES = ["wkt2019", "wkt2018", "json", "pyproj_wkt", "pyproj_json", "copy", "pickle", "user", "pyproj_user"]

REF: Dict[str, Any] = {}  # built in the parent, inherited through fork (plain pyproj, no odc.geo.CRS)
BASELINE: Dict[Tuple[Any, str], Any] = {}


# --------------------------------------------------------------------------------------
# parent-side references (pyproj only)
# --------------------------------------------------------------------------------------
def parent_init(tier: str, opts: dict) -> None:
    if REF:
        return
    import pyproj
    from pyproj.enums import WktVersion

    import odc.geo.crs as C

    if len(getattr(C, "_crs_cache", ())) != 0:
        raise HarnessError("C19 parent is not pristine: the CRS cache is not empty")
    specs: Dict[Any, Dict[str, Any]] = {}
    for code in CODES + CHURN_CODES:
        p = pyproj.CRS.from_epsg(code)
        specs[code] = {"wkt2019": p.to_wkt(version=WktVersion.WKT2_2019), "wkt2018": p.to_wkt(version=WktVersion.WKT2_2018), "json": p.to_json_dict(), "pp": p}
    for name, proj4 in CUSTOM.items():
        p = pyproj.CRS.from_user_input(proj4)
        specs[name] = {"wkt2019": p.to_wkt(version=WktVersion.WKT2_2019), "wkt2018": p.to_wkt(version=WktVersion.WKT2_2018), "json": p.to_json_dict(), "pp": p}
    REF["specs"] = specs
    # ground truth for "same CRS": pyproj's own comparison of the reference definitions, pair by pair
    # (not classes: pyproj's == is not transitive, see CHAINS)
    # One reference object per (definition, material handed to pyproj): pyproj's answer can depend on
    # the material (EPSG:32633 rebuilt from its own WKT equals 'utm33conv', built from the code it does not)
    pps: Dict[Any, Any] = {}
    for a in CODES + list(CUSTOM):
        pps[(a, "epsg" if a in CODES else "user")] = specs[a]["pp"]
        pps[(a, "wkt2019")] = pyproj.CRS.from_user_input(specs[a]["wkt2019"])
        pps[(a, "wkt2018")] = pyproj.CRS.from_user_input(specs[a]["wkt2018"])
        pps[(a, "json")] = pyproj.CRS.from_json_dict(copy.deepcopy(specs[a]["json"]))
    for code, txt in PROJ4.items():
        pps[(code, "proj4")] = pyproj.CRS.from_user_input(txt)
    REF["pp"] = pps
    REF["known_findings"] = load_known_findings()
    REF["eq"] = {(a, b): bool(pa == pb) for a, pa in pps.items() for b, pb in pps.items()}
    for ch in CHAINS:
        if not pyproj_chain([[_material(x[0], x[1] or ("int" if x[0] in CODES else "user"))] for x in ch]):
            raise HarnessError(f"C19 reference: pyproj's == is transitive on {ch} here; the chain no longer exercises anything")
    for a in CODES + list(CUSTOM):  # what "lossless route" means: every material admitted for a definition is pyproj-equal to every other
        mats = sorted({_material(a, r) for r in (CASE_ROUTES if a in AUTH_CODES else CUSTOM_ROUTES_FOR.get(a, CUSTOM_ROUTES) if a in CUSTOM else ROUTES)})
        bad = [(x, y) for x in mats for y in mats if not REF["eq"][(x, y)]]
        if bad:
            raise HarnessError(f"C19 reference: routes of {a} are not all equivalent for pyproj: {bad[:3]}")
    probes: Dict[Any, Tuple[float, float]] = {}
    for code in list(TRANSFORM_CODES) + CHURN_CODES + list(CUSTOM):
        p = specs[code]["pp"]
        aou = p.area_of_use
        if aou is None:
            lon, lat = 21.0, 11.0
        else:
            lon, lat = aou.west * 0.4 + aou.east * 0.6, aou.south * 0.45 + aou.north * 0.55
        x, y = pyproj.Transformer.from_crs("EPSG:4326", p, always_xy=True).transform(lon, lat)
        probes[code] = (float(x), float(y))
    REF["probe_xy"] = probes
    REF["tr"] = {}
    REF["same"] = {}


def _material(code: Any, route: str) -> Tuple[Any, str]:
    """(definition, material) - which text or object pyproj is finally handed on this route."""
    if route == "proj4":
        return (code, "proj4")
    custom = code in CUSTOM
    if route in ("wkt2019", "pyproj_wkt"):
        return (code, "wkt2019")
    if route == "wkt2018":
        return (code, "wkt2018")
    if route in ("json", "pyproj_json"):
        return (code, "json")
    if custom:
        if route in ("user", "pyproj_user", "user_lc", "user_mc") or code in CUSTOM_ROUTES_FOR:
            return (code, "user")
        if code in AUTH_CODES:
            return (code, "user")  # copy / pickle of a value built from the code as typed
        return (code, "wkt2019")  # copy / pickle of a value built from the WKT text
    return (code, "epsg")


def _collides(code: Any, route: str) -> bool:
    """Routes whose construction-cache key is a pyproj object or the WKT2:2019 text: for one
    definition they all land on one cache entry (the mechanism of known finding D19a), so the
    pyproj object such a CRS ends up holding is the one built by whichever came first."""
    if route in ("wkt2019", "json", "pyproj_epsg", "pyproj_wkt", "pyproj_json", "pyproj_user"):
        return True
    return code in CUSTOM and code not in CUSTOM_ROUTES_FOR and code not in AUTH_CODES and route in ("copy", "pickle")


def pyproj_chain(cands3: List[List[Any]]) -> bool:
    """cands3: for each of three values the materials its pyproj object may have been built from.
    True when for some choice pyproj's own == is already not transitive on the reference objects
    (some ordering x, y, z has x == y, y == z and x != z)."""
    eq = REF["eq"]
    for ks in itertools.product(*cands3):
        if any(eq[(x, y)] and eq[(y, z)] and not eq[(x, z)] for x, y, z in itertools.permutations(ks, 3)):
            return True
    return False


def worker_init(tier: str, opts: dict) -> None:
    parent_init(tier, opts)


def _ref_transform(ca: Any, cb: Any, xy: bool, x: float, y: float) -> Tuple[float, float]:
    import pyproj

    k = (ca, cb, xy)
    tr = REF["tr"].get(k)
    if tr is None:
        tr = REF["tr"][k] = pyproj.Transformer.from_crs(REF["specs"][ca]["pp"], REF["specs"][cb]["pp"], always_xy=xy)
    return tr.transform(x, y)


def _axis_swapped(code: Any) -> bool:
    """True when the authority axis order of the CRS is (northing/lat, easting/lon)."""
    p = REF["specs"][code]["pp"]
    ai = p.axis_info
    return bool(ai) and ai[0].direction.lower() in ("north", "south")


def _route_class(detail: Dict[str, Any]) -> str:
    """'object-or-text' when any CRS named in the violation was built through a route whose
    construction-cache key is a pyproj object or a WKT text, else 'code-string'."""
    found: List[Tuple[Any, str]] = []

    def walk(x: Any) -> None:
        if isinstance(x, (list, tuple)):
            if len(x) == 2 and isinstance(x[1], str) and not isinstance(x[0], (list, tuple)) and (x[0] in CUSTOM or x[0] in CODES or x[0] in CHURN_CODES):
                found.append((x[0], x[1]))
            for y in x:
                walk(y)

    for k in ("spec", "a", "b", "c"):
        walk(detail.get(k))
    for code, route in found:
        if route in OBJECT_OR_TEXT_ROUTES or (route in ("copy", "pickle") and code in CUSTOM and code not in CUSTOM_ROUTES_FOR and code not in AUTH_CODES):
            return "object-or-text"
    return "code-string"


def same_crs_spelling(sa: str, sb: str) -> bool:
    """Both strings are valid spellings of one and the same CRS (checked with pyproj directly)."""
    import pyproj

    k = (sa, sb)
    if k not in REF["same"]:
        try:
            REF["same"][k] = bool(pyproj.CRS.from_user_input(sa) == pyproj.CRS.from_user_input(sb))
        except Exception:  # pylint: disable=broad-except
            REF["same"][k] = False
    return REF["same"][k]


# --------------------------------------------------------------------------------------
# generation
# --------------------------------------------------------------------------------------
COMP_KINDS = ["bbox", "geom", "geobox", "gcp", "gbtiles", "gridspec", "tiles", "vtiles", "xy", "res", "shape", "index"]
NEEDS_CRS = {"bbox", "geom", "geobox", "gcp", "gbtiles", "gridspec"}


def _draw_crs_spec(rng: random.Random) -> List[Any]:
    if rng.random() < 0.12:
        name = rng.choice(sorted(CUSTOM))
        if name in AUTH_CODES:
            return ["crs", name, rng.choice(CASE_ROUTES)]
        return ["crs", name, rng.choice(CUSTOM_ROUTES_FOR.get(name, CUSTOM_ROUTES))]
    if rng.random() < 0.08:
        return ["crs", rng.choice(sorted(PROJ4)), "proj4"]
    code = rng.choice(CODES[:5] if rng.random() < 0.7 else CODES)
    return ["crs", code, rng.choice(ROUTES)]


def generate(rng: random.Random, tier: str) -> dict:
    # pylint: disable=too-many-branches
    steps: List[List[Any]] = []
    n_pool = 0  # number of pool slots allocated so far (indices are stable; drops leave holes)
    crs_slots: List[int] = []
    val_slots: List[int] = []

    def add_crs(spec: List[Any]) -> None:
        nonlocal n_pool
        steps.append(spec)
        crs_slots.append(n_pool)
        n_pool += 1

    focus = rng.sample(COMP_KINDS, rng.choice([1, 1, 2]))
    nsteps = rng.randint(3, 25 if tier == "thorough" else 18)
    style = rng.choice(["mixed", "mixed", "crs-heavy", "composite-heavy", "gadget", "gadget", "flood"])
    add_crs(_draw_crs_spec(rng))
    if style != "flood" and rng.random() < 0.07:
        # near-equivalent definitions: a triple on which pyproj's own == is not transitive, in any
        # order and through any lossless route, optionally carried by the same composite value
        steps.clear()
        crs_slots.clear()
        n_pool = 0
        chain = [list(x) for x in rng.choice(CHAINS)]
        if rng.random() < 0.5:
            # the same definition once more through two routes that share a construction-cache entry
            code = next(c for c, r in chain if r is None and c in CODES)
            chain += [[code, rng.choice(["pyproj_epsg", "pyproj_json"])], [code, rng.choice(["wkt2019", "pyproj_wkt"])]]
        rng.shuffle(chain)
        for code, route in chain:
            if route is None:
                route = rng.choice(CASE_ROUTES if code in AUTH_CODES else CUSTOM_ROUTES_FOR.get(code, CUSTOM_ROUTES) if code in CUSTOM else ROUTES)
            add_crs(["crs", code, route])
        if rng.random() < 0.5:
            kind, var = rng.choice(sorted(NEEDS_CRS)), rng.randrange(17)
            for ref in list(crs_slots):
                steps.append(["comp", kind, var, ref])
                val_slots.append(n_pool)
                n_pool += 1
        nsteps = max(nsteps, len(steps) + rng.randint(0, 5))
    if style == "flood":
        # bounded-cache gadget: transformer(a, b); drop a; flood the construction cache with n
        # never-seen specs (n straddles common cache bounds); then fresh CRSs ask for transformers
        a = _draw_crs_spec(rng)
        while a[1] not in TRANSFORM_CODES or a[2] in ("copy", "pickle"):
            a = _draw_crs_spec(rng)
        b = ["crs", rng.choice(TRANSFORM_CODES), rng.choice(["int", "EPSG", "wkt2019"])]
        steps.clear()
        crs_slots.clear()
        n_pool = 0
        add_crs(b)
        add_crs(a)
        xy = rng.random() < 0.6
        steps.append(["transform", 1, 0, xy])
        steps.append(["drop", 1])
        crs_slots.remove(1)
        steps.append(["gc"])
        steps.append(["flood", rng.choice([20, 70, 140, 140, 270, 530, 1100] + ([2200, 4200] if tier == "thorough" else [])), 0, xy])
        steps.append(["gc"])
        steps.append(["churn", rng.sample(CHURN_CODES, rng.choice([2, 3])), 0, xy])
        nsteps = len(steps) + rng.randint(0, 4)
    while len(steps) < nsteps and n_pool < 16:
        r = rng.random()
        if style == "gadget" and len(steps) < nsteps - 6 and rng.random() < 0.5:
            # stale-identity gadget: race -> transformer -> drop -> gc -> churn
            spec = _draw_crs_spec(rng)
            while spec[1] not in TRANSFORM_CODES:
                spec = _draw_crs_spec(rng)
            T = rng.choice([2, 2, 3])
            steps.append(["race", [spec[1:] for _ in range(T)]])
            new = list(range(n_pool, n_pool + T))
            crs_slots.extend(new)
            n_pool += T
            other = rng.choice([s for s in crs_slots if s not in new] or new)
            for s in new:
                steps.append(["transform", s, other, rng.random() < 0.6])
            for s in new:
                steps.append(["drop", s])
                crs_slots.remove(s)
            steps.append(["gc"])
            if other in crs_slots:
                steps.append(["churn", rng.sample(CHURN_CODES, rng.choice([2, 3, 4])), other, rng.random() < 0.6])
            continue
        if r < (0.45 if style == "crs-heavy" else 0.25):
            add_crs(_draw_crs_spec(rng))
        elif r < (0.55 if style != "composite-heavy" else 0.75):
            # pair laws live within a kind: stay with the family already in the pool most of the time
            kind = focus[rng.randrange(len(focus))] if rng.random() < 0.75 else rng.choice(COMP_KINDS)
            ref = rng.choice(crs_slots) if (crs_slots and kind in NEEDS_CRS and rng.random() < 0.9) else None
            if kind in LADDER_KINDS and n_pool <= 13 and rng.random() < 0.15:
                # three members one tolerance-ladder step apart (see LADDER0), in a drawn order
                field, rung = rng.randrange(LADDER_FIELDS), rng.randrange(LADDER_RUNGS)
                for m in rng.sample([0, 1, 2], 3):
                    steps.append(["comp", kind, ladder_variant(field, rung, m), ref])
                    val_slots.append(n_pool)
                    n_pool += 1
                continue
            steps.append(["comp", kind, rng.randrange(17), ref])
            val_slots.append(n_pool)
            n_pool += 1
            if rng.random() < 0.12:
                # fresh composite value straight to the peer interpreter (it has been hashed here on entering the pool)
                steps.append(["xi", n_pool - 1, rng.random() < 0.6])
        elif r < 0.63 and (crs_slots or val_slots):
            steps.append([rng.choice(["copy", "pickle"]), rng.choice(crs_slots + val_slots)])
            n_pool += 1
            (crs_slots if steps[-1][1] in crs_slots else val_slots).append(n_pool - 1)
        elif r < 0.74 and len(crs_slots) >= 1:
            a, b = rng.choice(crs_slots), rng.choice(crs_slots)
            steps.append(["transform", a, b, rng.random() < 0.6])
        elif r < 0.79 and (crs_slots or val_slots):
            s = rng.choice(crs_slots + val_slots)
            steps.append(["drop", s])
            (crs_slots if s in crs_slots else val_slots).remove(s)
        elif r < 0.825 and (crs_slots or val_slots):
            # ship a value to an interpreter with another hash seed (optionally after it was hashed here)
            steps.append(["xi", rng.choice(val_slots + val_slots + crs_slots), rng.random() < 0.6])
        elif r < 0.86 and (crs_slots or val_slots):
            steps.append(["use", rng.choice(val_slots + val_slots + crs_slots)])  # read-only use; may fill lazily cached state
        elif r < 0.885 and crs_slots:
            steps.append(["epsg", rng.choice(crs_slots)])  # read-only accessor; fills a lazily computed field
        elif r < 0.91:
            steps.append(["gc"])
        elif r < 0.945 and crs_slots:
            steps.append(["churn", rng.sample(CHURN_CODES, rng.choice([1, 2, 3])), rng.choice(crs_slots), rng.random() < 0.6])
        elif crs_slots is not None:
            T = rng.choice([2, 2, 3])
            if rng.random() < 0.6:
                sp = _draw_crs_spec(rng)[1:]
                specs = [sp for _ in range(T)]
            else:
                specs = [_draw_crs_spec(rng)[1:] for _ in range(T)]
            tgt = [c_ for c_ in crs_slots]
            if tgt and rng.random() < 0.5 and all(sp[0] in TRANSFORM_CODES and sp[1] != "proj4" for sp in specs):
                steps.append(["race", specs, rng.choice(tgt), rng.random() < 0.6])  # threads also request a transformer
            else:
                steps.append(["race", specs])
            crs_slots.extend(range(n_pool, n_pool + T))
            n_pool += T
    cfg = {"policy": draw_policy(rng, groups=None, horizon=400)}
    if cfg["policy"]["kind"] in ("lifo", "fifo", "starve"):
        cfg["policy"] = {"kind": "uniform"}
    return {"config": cfg, "workload": {"steps": steps}}


# --------------------------------------------------------------------------------------
# value construction (child side)
# --------------------------------------------------------------------------------------
def build_crs(code: Any, route: str) -> Any:
    import pyproj
    from odc.geo.crs import CRS

    sp = REF["specs"][code]
    if route == "proj4":
        return CRS(PROJ4[int(code)])
    if route == "user":
        return CRS(CUSTOM[code])  # the definition exactly as a user would type it
    if route in ("user_lc", "user_mc"):
        # the authority name in another letter case: "esri:54009", "Ogc:CRS84" (the code itself is case-sensitive for PROJ)
        auth, _, c = CUSTOM[code].partition(":")
        return CRS(f"{auth.lower() if route == 'user_lc' else auth.capitalize()}:{c}")
    if route == "pyproj_user":
        return CRS(pyproj.CRS.from_user_input(CUSTOM[code]))
    if route == "int":
        return CRS(int(code))
    if route == "EPSG":
        return CRS(f"EPSG:{code}")
    if route == "epsg":
        return CRS(f"epsg:{code}")
    if route == "Epsg":
        return CRS(f"Epsg:{code}")
    if route == "EPSG0":
        return CRS(f"EPSG:0{code}")  # zero-padded code
    if route == "wkt2019":
        return CRS(sp["wkt2019"])
    if route == "wkt2018":
        return CRS(sp["wkt2018"])
    if route == "json":
        return CRS(copy.deepcopy(sp["json"]))
    if route == "pyproj_epsg":
        return CRS(pyproj.CRS.from_epsg(int(code)))
    if route == "pyproj_wkt":
        return CRS(pyproj.CRS.from_wkt(sp["wkt2019"]))
    if route == "pyproj_json":
        return CRS(pyproj.CRS.from_json_dict(copy.deepcopy(sp["json"])))
    base = CRS(int(code)) if isinstance(code, int) else CRS(CUSTOM[code] if (code in CUSTOM_ROUTES_FOR or code in AUTH_CODES) else sp["wkt2019"])
    if route == "copy":
        return CRS(base)
    if route == "pickle":
        return pickle.loads(pickle.dumps(base))
    raise HarnessError(f"unknown route {route}")


def build_comp(kind: str, v: int, crs: Any) -> Any:
    # pylint: disable=too-many-return-statements,too-many-branches,import-outside-toplevel
    from affine import Affine
    from odc.geo import geom
    from odc.geo.gcp import GCPGeoBox, GCPMapping
    from odc.geo.geobox import GeoBox, GeoboxTiles
    from odc.geo.gridspec import GridSpec
    from odc.geo.roi import Tiles, VariableSizedTiles
    from odc.geo.types import ixy_, resyx_, shape_, xy_

    TINY = 1e-9  # relative: beyond what "%g"-style formatting keeps, well within double precision
    if v >= LADDER0:
        return _ladder_member(kind, v, crs)
    if kind == "bbox":
        v = v % 10
        box = [0.0, 0.0, 10.0, 20.0]
        if v in (1, 2, 3, 4):
            box[v - 1] += 0.5
        elif v in (6, 7):
            box[v - 4] *= 1 + TINY  # right / top edge moved by a hair
        elif v == 8:
            box[3] = math.nextafter(box[3], 100.0)
        return geom.BoundingBox(*box, crs=crs)
    if kind == "geom":
        v = v % 17
        if v == 0:
            return geom.point(1.0, 2.0, crs)
        if v == 1:
            return geom.point(1.0, 2.5, crs)
        if v == 2:
            return geom.line([(0, 0), (1, 1), (2, 0)], crs)
        if v == 3:
            return geom.line([(0, 0), (1, 1), (2, 0.5)], crs)
        if v == 4:
            return geom.polygon([(0, 0), (0, 2), (2, 2), (2, 0), (0, 0)], crs)
        if v == 5:
            return geom.polygon([(0, 0), (0, 2), (2, 2.5), (2, 0), (0, 0)], crs)
        if v == 6:
            return geom.multipoint([(0, 0), (1, 1)], crs)
        if v == 7:
            return geom.multipoint([(0, 0), (1, 1.5)], crs)
        if v == 8:
            return geom.point(1.0, 2.0 * (1 + TINY), crs)
        if v == 9:
            return geom.polygon([(0, 0), (0, 2), (2, 2), (2, 0), (0, 0)], crs, [(0.5, 0.5), (0.5, 1), (1, 1), (0.5, 0.5)])
        if v == 10:
            return geom.polygon([(0, 0), (0, 2), (2, 2), (2, 0), (0, 0)], crs, [(0.5, 0.5), (0.5, 1), (1, 1.25), (0.5, 0.5)])
        if v == 11:
            return geom.line([(0, 0), (1, 1), (2, math.nextafter(0.5, 1.0))], crs)
        if v == 12:
            return geom.multipolygon([[[(0, 0), (0, 1), (1, 1), (0, 0)]], [[(5, 5), (5, 6), (6, 6), (5, 5)]]], crs)
        if v == 13:
            return geom.multiline([[(0, 0), (1, 1)], [(2, 2), (3, 3.5)]], crs)
        import shapely

        if v == 14:  # what an intersection of touching shapes returns
            return geom.Geometry(shapely.GeometryCollection([shapely.Point(1, 2), shapely.LineString([(0, 0), (1, 1)])]), crs)
        if v == 15:
            return geom.Geometry(shapely.GeometryCollection([shapely.Point(1, 2.5), shapely.LineString([(0, 0), (1, 1)])]), crs)
        return geom.Geometry(shapely.Polygon(), crs)  # empty
    if kind == "geobox":
        # 0 base | 1 same as base | 2 transposed | 3 same pixel count | 4..9 one affine coefficient changed (a,b,c,d,e,f) | 10 ny+1 | 11 nx+1
        shp = {2: (12, 10), 3: (8, 15), 10: (11, 12), 11: (10, 13)}.get(v, (10, 12))
        a = [10.0, 0.0, 100.0, 0.0, -10.0, 500.0]
        if 4 <= v <= 9:
            a[v - 4] += [0.5, 0.25, 1.0, 0.25, 0.5, 1.0][v - 4]
        elif v == 12:
            a[0] *= 1 + TINY
        elif v == 13:
            a[2] *= 1 + TINY
        elif v == 14:
            a[5] = math.nextafter(a[5], 1000.0)
        elif v == 15:
            a[4] *= 1 + TINY
        return GeoBox(shp, Affine(*a), crs)
    if kind == "gcp":
        v = v % 12
        pix = [(0, 0), (10, 0), (10, 12), (0, 12), (5, 6)]
        wld = [(100.0, 500.0), (200.0, 501.0), (202.0, 380.0), (99.0, 379.0), (150.0, 440.0)]
        if v in (1, 5):
            wld[4] = (150.0, 441.0)
        if v == 2:
            pix[4] = (5, 7)
        if v == 8:
            wld[2] = (202.0 * (1 + TINY), 380.0)
        if v == 9:
            pix[1] = (10 * (1 + TINY), 0)
        if v == 10:
            wld[2] = (math.nextafter(202.0, 300.0), 380.0)  # one ulp
        if v == 11:
            wld[0] = (100.0, 500.0 + 1e-12)
        shp = (12, 10) if v != 3 else (10, 12)
        import numpy as np

        return GCPGeoBox(shp, GCPMapping(np.asarray(pix, dtype="float64"), np.asarray(wld, dtype="float64"), crs), Affine.translation(1, 0) if v == 4 else None)
    if kind == "gbtiles":
        # 0 base | 1 tile nx | 2 tile ny | 3 base shape | 4 base affine f | 5,6 variable chunks differing in columns | 7 tile ny
        # 8,9 variable chunks differing in rows only | 10 base affine c | 11 same as base
        gb = GeoBox((20, 30) if v != 3 else (21, 30), Affine(10.0, 0.0, 100.0 + (1.0 if v == 10 else 0.0), 0.0, -10.0, 500.0 + (1.0 if v == 4 else 0.0)), crs)
        var = {5: ((10, 10), (10, 20)), 6: ((10, 10), (20, 10)), 8: ((5, 15), (10, 20)), 9: ((15, 5), (10, 20))}
        if v in var:
            return GeoboxTiles(gb, var[v])
        return GeoboxTiles(gb, {1: (10, 15), 2: (5, 10), 7: (7, 10)}.get(v, (10, 10)))
    if kind == "gridspec":
        if crs is None:
            raise _Skip()
        # 0 base | 1 tile nx | 2 resolution | 3 origin x | 4 flipx | 5 flipy | 6 tile ny | 7 origin y | 8 non-square resolution | 9.. base
        ts = {1: (100, 120), 6: (120, 100)}.get(v, (100, 100))
        res: Any = 20.0 if v == 2 else (resyx_(-10.0, 20.0) if v == 8 else (10.0 * (1 + TINY) if v == 9 else 10.0))
        org = {3: xy_(5.0, 0.0), 7: xy_(0.0, 5.0), 10: xy_(1e-7, 0.0)}.get(v, xy_(0.0, 0.0))
        return GridSpec(crs, ts, res, org, flipx=(v == 4), flipy=(v == 5))
    if kind == "tiles":
        fam = [((10, 10), (5, 5)), ((9, 9), (5, 5)), ((10, 10), (5, 4)), ((10, 12), (5, 6)), ((10, 9), (5, 5)), ((20, 10), (10, 5)), ((10, 10), (10, 10)), ((7, 7), (10, 10)),
               ((9, 10), (5, 5)), ((10, 10), (4, 5)), ((10, 10), (5, 5)), ((11, 10), (5, 5))]
        base, tile = fam[v % len(fam)]
        return Tiles(base, tile)
    if kind == "vtiles":
        fam = [((5, 5), (3, 7)), ((5, 5), (7, 3)), ((5, 5), (3, 7)), ((4, 6), (3, 7)), ((10,), (10,)), ((5, 5), (10,)), ((5, 5, 0), (3, 7)), ((5, 5), (3, 6)),
               ((6, 4), (3, 7)), ((3, 7), (5, 5)), ((5, 5), (3, 3, 4)), ((5, 6), (3, 7))]
        if v in (12, 13):  # more than a thousand chunks, differing only in the middle
            rows = [2] * 1200
            if v == 13:
                rows[600], rows[601] = 1, 3
            return VariableSizedTiles((tuple(rows), (3, 7)))
        return VariableSizedTiles(fam[v % len(fam)])
    if kind == "xy":
        return [xy_(1, 2), xy_(2, 1), xy_(1.0, 2.0), xy_(1, 3), xy_(1.5, 2), xy_(-1, 2), xy_(0, 0), xy_(1, 2), xy_(1.0, 2.0 * (1 + TINY)), xy_(math.nextafter(1.0, 2.0), 2.0), xy_(1e-300, 2), xy_(-0.0, 2), xy_(0.0, 2)][v % 13]
    if kind == "res":
        return [resyx_(-10, 10), resyx_(10, 10), resyx_(-10.0, 10.0), resyx_(-10, 10.5), resyx_(-1, 1), resyx_(-10, 10), resyx_(-20, 10), resyx_(-10, 20), resyx_(-10, 10 * (1 + TINY)), resyx_(-10 * (1 + TINY), 10), resyx_(-10, math.nextafter(10.0, 11.0)), resyx_(-0.00026949458523585647, 0.00026949458523585647), resyx_(-0.000269494585, 0.000269494585)][v % 13]
    if kind == "shape":
        return [shape_((10, 12)), shape_((12, 10)), shape_((10, 12)), shape_((10, 13)), shape_((1, 1)), shape_((0, 0)), shape_((120, 1)), shape_((10, 12))][v % 8]
    if kind == "index":
        return [ixy_(1, 2), ixy_(2, 1), ixy_(1, 2), ixy_(0, 0), ixy_(-1, 2), ixy_(1, -2), ixy_(100, 2), ixy_(1, 3)][v % 8]
    raise HarnessError(f"unknown kind {kind}")


class _Skip(Exception):
    pass


# Ladder members: three values of one kind that differ in ONE float field by 0, 1 and 2 steps, the step being
# 0.6e-13 * 2**rung relative (rungs 0..39: 6e-14 ... 0.033).  Any tolerance T used in an equality test has
# exactly one rung with a step in [T/2, T): there the outer members are unequal while each equals the middle
# one, so a tolerance-based == shows up as a transitivity (or hash / token) violation whatever T is.
LADDER0 = 1000
LADDER_KINDS = ("bbox", "geom", "geobox", "gcp", "gbtiles", "gridspec", "xy", "res")
LADDER_RUNGS = 40
LADDER_FIELDS = 4


def ladder_variant(field: int, rung: int, m: int) -> int:
    return LADDER0 + ((field % LADDER_FIELDS) * LADDER_RUNGS + (rung % LADDER_RUNGS)) * 3 + (m % 3)


def _ladder_member(kind: str, v: int, crs: Any) -> Any:
    # pylint: disable=too-many-return-statements,import-outside-toplevel
    import numpy as np
    from affine import Affine
    from odc.geo import geom
    from odc.geo.gcp import GCPGeoBox, GCPMapping
    from odc.geo.geobox import GeoBox, GeoboxTiles
    from odc.geo.gridspec import GridSpec
    from odc.geo.types import resyx_, xy_

    fr, m = divmod(v - LADDER0, 3)
    field, rung = divmod(fr, LADDER_RUNGS)
    k = 1.0 + m * 0.6e-13 * 2.0**rung

    def bump(vals: List[float], i: int) -> List[float]:
        vals = list(vals)
        vals[i % len(vals)] *= k
        return vals

    if kind == "bbox":
        return geom.BoundingBox(*bump([5.0, 7.0, 10.0, 20.0], field), crs=crs)
    if kind == "geom":
        if field < 2:
            return geom.point(*bump([431000.0, 2.0], field), crs)
        if field == 2:
            return geom.polygon([(0, 0), (0, 2), (2 * k, 2), (2, 0), (0, 0)], crs)
        return geom.line([(0, 0), (1, 1), (2, 0.5 * k)], crs)
    if kind == "geobox":
        a = [10.0, 0.0, 100.0, 0.0, -10.0, 500.0]
        a[[0, 2, 4, 5][field]] *= k
        return GeoBox((10, 12), Affine(*a), crs)
    if kind == "gcp":
        pix = [[0.0, 0.0], [10.0, 0.0], [10.0, 12.0], [0.0, 12.0], [5.0, 6.0]]
        wld = [[431100.0, 500.0], [431200.0, 501.0], [431202.0, 380.0], [431099.0, 379.0], [431150.0, 440.0]]
        if field == 0:
            wld[2][0] *= k
        elif field == 1:
            wld[2][1] *= k
        elif field == 2:
            pix[1][0] *= k
        else:
            wld[0][0] *= k
        return GCPGeoBox((12, 10), GCPMapping(np.asarray(pix, dtype="float64"), np.asarray(wld, dtype="float64"), crs), None)
    if kind == "gbtiles":
        a = [10.0, 0.0, 100.0, 0.0, -10.0, 500.0]
        a[[2, 5, 0, 4][field]] *= k
        return GeoboxTiles(GeoBox((20, 30), Affine(*a), crs), (10, 10))
    if kind == "gridspec":
        if crs is None:
            raise _Skip()
        res = [-10.0, 10.0]
        org = [5.0, 3.0]
        if field < 2:
            res[field] *= k
        else:
            org[field - 2] *= k
        return GridSpec(crs, (100, 100), resyx_(*res), xy_(*org))
    if kind == "xy":
        return xy_(*bump([431000.0, 2.0], field))
    if kind == "res":
        return resyx_(*bump([-10.0, 10.0], field))
    raise HarnessError(f"no ladder for kind {kind}")


HASHABLE_KINDS = {"crs", "bbox", "geobox", "gcp", "xy", "res", "shape", "index"}


# --------------------------------------------------------------------------------------
# the history (runs in the forked child)
# --------------------------------------------------------------------------------------
class _Stop(Exception):
    def __init__(self, v: Violation):
        super().__init__(str(v))
        self.v = v


_real_id = id


class SimIds:
    """The allocator behind a seam.  ``odc.geo.crs`` looks up the global name ``id`` when it
    builds transformer-cache keys; inside a history that name is bound to this object.  It
    hands out *virtual* addresses under CPython's contract for id() -- unique among
    simultaneously existing objects, and an object that is seen for the first time may be
    given the address of one that has died (decided by the run's Chooser, fault kind
    ``address_reuse``).  Which real address the interpreter happened to pick no longer
    matters, so histories replay exactly."""

    def __init__(self, hist: "History"):
        self.hist = hist
        self.addr: Dict[int, Tuple[int, Any]] = {}
        self.free: List[int] = []
        self.next = 1 << 48
        self.calls = 0
        self.first_seen = 0

    def __call__(self, obj: Any) -> int:
        self.calls += 1
        rid = _real_id(obj)
        ent = self.addr.get(rid)
        if ent is not None and ent[1]() is obj:
            return ent[0]
        try:
            wr = weakref.ref(obj, lambda r, rid=rid: self._died(rid, r))
        except TypeError:
            return rid  # cannot be tracked: real identity
        self.first_seen += 1
        if self.free and self.hist.ch.fault("address_reuse", (self.hist.steps_done, self.first_seen), 0.8):
            va = self.free.pop()
            self.hist.probes["id_reuse_observed"] += 1
        else:
            va = self.next
            self.next += 64
        self.addr[rid] = (va, wr)
        return va

    def _died(self, rid: int, r: Any) -> None:
        ent = self.addr.get(rid)
        if ent is not None and ent[1] is r:
            del self.addr[rid]
            self.free.append(ent[0])
            self.hist.probes["orphan_pyproj_object_died"] += 1


class History:
    def __init__(self, record: dict, rng: Optional[random.Random]):
        self.record = record
        self.cfg = record["config"]
        self.ch = Chooser(rng, record.get("schedule"), record.get("faults"), self.cfg.get("policy"))
        self.log = Digest()
        self.pool: Dict[int, Dict[str, Any]] = {}
        self.built: Dict[Any, set] = {}  # definition -> materials handed to pyproj for it so far (the construction cache never forgets)
        self.collided: set = set()  # definitions for which a route sharing the D19a cache entry has been taken
        self.next_slot = 0
        self.known: List[Violation] = []
        self.probes = {
            "race_both_threads_missed_cache": 0,
            "pyproj_chain_triples": 0,
            "collision_explained_equalities": 0,
            "race_lock_contended": 0,
            "id_reuse_observed": 0,
            "orphan_pyproj_object_died": 0,
            "transformer_checks": 0,
            "transformer_requested_while_dead_address_available": 0,
            "address_seam_calls": 0,
            "gc_collected_objects": 0,
            "known_class_violations": 0,
            "gadget_histories": 0,
            "pairs_checked": 0,
            "flood_constructions": 0,
            "racing_transformer_requests": 0,
            "values_used_then_rechecked": 0,
            "values_sent_to_other_interpreter": 0,
        }
        self.steps_done = 0
        self.switches = 0
        self.sim_ids = SimIds(self)
        self.n_flood = 0
        self._lock_contended_seen = 0

    # ---- reporting
    def report(self, oracle: str, sig: str, detail: Dict[str, Any], strs: Optional[Tuple[str, str]] = None, cause: Optional[str] = None) -> None:
        if cause is None and strs is not None and strs[0] != strs[1] and same_crs_spelling(strs[0], strs[1]):
            cause = "crs-spelling"
        detail = dict(detail)
        detail["cause"] = cause
        if cause == "crs-spelling":
            # D19a's mechanism is a construction-cache key that is a pyproj object or a WKT text; a CRS typed as
            # an authority code (any authority, any letter case) never takes part in it on the current tree
            detail["route_class"] = _route_class(detail)
        detail["step"] = self.steps_done
        v = Violation(PROP, oracle, sig, detail)
        if cause is not None:
            self.known.append(v)
            self.probes["known_class_violations"] += 1
            return
        raise _Stop(v)

    def _crs_spec_of(self, e: Dict[str, Any]) -> Optional[List[Any]]:
        """[code, route] of a CRS value, or of the CRS a composite value was given (through copies)."""

        def unwrap(sp: Any) -> Any:
            while isinstance(sp, list) and len(sp) == 2 and sp[0] in ("copy", "pickle") and isinstance(sp[1], list):
                sp = sp[1]
            return sp

        sp = unwrap(e.get("spec"))
        if e["kind"] != "crs":
            sp = unwrap(sp[2]) if isinstance(sp, list) and len(sp) > 2 else None
        return sp if isinstance(sp, list) and len(sp) == 2 and not isinstance(sp[0], list) else None

    def materials(self, e: Dict[str, Any]) -> Optional[List[Any]]:
        """Materials the pyproj object inside this value may have been built from: its own, and -
        once a route that shares the construction-cache entry (see _collides) has been taken for the
        same definition in this history - any material used for that definition so far."""
        sp = self._crs_spec_of(e)
        if sp is None:
            return None
        own = _material(sp[0], sp[1])
        if own not in REF["pp"]:
            return None
        out = [own]
        if sp[0] in self.collided:
            out += [m for m in sorted(self.built.get(sp[0], ()), key=str) if m != own]
        return out

    def note_built(self, code: Any, route: str) -> None:
        self.built.setdefault(code, set()).add(_material(code, route))
        if _collides(code, route):
            self.collided.add(code)

    def expect_equal(self, e: Dict[str, Any], o: Dict[str, Any]) -> Tuple[Optional[bool], List[bool]]:
        """(pyproj's answer for the two values' own materials, every answer reachable through the
        shared cache entry).  (None, []) when there is no reference."""
        ma, mb = self.materials(e), self.materials(o)
        if ma is None or mb is None:
            return None, []
        eq = REF["eq"]
        return eq[(ma[0], mb[0])], sorted({eq[(x, y)] for x in ma for y in mb})

    def check_want(self, e: Dict[str, Any], o: Dict[str, Any], eq1: bool, pw: Dict[str, Any], strs: Tuple[str, str]) -> None:
        """O19.7 for two CRS values built from EPSG codes / custom definitions through lossless routes."""
        if e.get("code") is None or o.get("code") is None:
            return
        want, reachable = self.expect_equal(e, o)
        if want is None or want == eq1:
            return
        sig = "crs-equivalent-specs-not-equal" if want else "crs-different-crs-compare-equal"
        cause = None
        if eq1 in reachable:
            # the answer pyproj gives for the object another, earlier route left in the shared cache entry
            cause = "crs-cache-key-collision"
            self.probes["collision_explained_equalities"] += 1
        self.report("O19.7", sig, pw, strs, cause=cause)

    def chain_cause(self, *three: Dict[str, Any]) -> Optional[str]:
        """'pyproj-eq-not-transitive' when the CRS definitions of the three values (their own, or
        the one they hold) already form a non-transitive triple for pyproj's ==, applied to
        reference objects built outside the library; anything else stays a plain violation."""
        cands = [self.materials(e) for e in three]
        if any(c is None for c in cands):
            return None
        if pyproj_chain(cands):  # type: ignore[arg-type]
            self.probes["pyproj_chain_triples"] += 1
            return "pyproj-eq-not-transitive"
        return None

    # ---- pool
    def add(self, kind: str, value: Any, meta: Dict[str, Any]) -> int:
        slot = self.next_slot
        self.next_slot += 1
        e = {"kind": kind, "value": value, "slot": slot, **meta}
        self.pool[slot] = e
        self._watch(e)
        self.check_new(e)
        return slot

    def skip_slot(self) -> None:
        self.next_slot += 1

    def _watch(self, e: Dict[str, Any]) -> None:
        return None

    @staticmethod
    def crs_str_of(e: Dict[str, Any]) -> str:
        v = e["value"]
        if e["kind"] == "crs":
            return str(v)
        c = getattr(v, "crs", None)
        if c is None and e["kind"] == "gbtiles":
            c = v.base.crs
        return str(c)

    # ---- laws for a new value against the pool
    def check_new(self, e: Dict[str, Any]) -> None:
        # pylint: disable=too-many-branches,too-many-locals
        from dask.base import tokenize

        v = e["value"]
        kind = e["kind"]
        what = {"kind": kind, "spec": e.get("spec")}
        if not v == v:
            self.report("O19.1", f"{kind}-not-reflexive", what)
        if v != v:
            self.report("O19.1", f"{kind}-ne-inconsistent", what)
        tok = tokenize(v)
        e["token"] = tok
        if tokenize(v) != tok:
            self.report("O19.3", f"{kind}-token-not-stable", what)
        hashable = False
        if kind in HASHABLE_KINDS:
            try:
                e["hash"] = hash(v)
                hashable = True
            except TypeError:
                pass  # type opted out of hashing: the hash laws do not apply
        e["hashable"] = hashable
        # copy / pickle clones
        try:
            clone = pickle.loads(pickle.dumps(v))
        except Exception as ex:  # pylint: disable=broad-except
            kind_, sig = classify_exception(ex)
            if kind_ == "repo":
                self.report("O19.4", f"{kind}-pickle-raises:{sig}", what)
            raise
        s_v, s_c = self.crs_str_of(e), self.crs_str_of({"kind": kind, "value": clone})
        e["clone"] = clone
        if not (clone == v and v == clone):
            self.report("O19.4", f"{kind}-unpickled-clone-not-equal", what, (s_v, s_c))
        if tokenize(clone) != tok:
            self.report("O19.3", f"{kind}-unpickled-clone-token-differs", what, (s_v, s_c))
        if hashable and clone == v and hash(clone) != e["hash"]:
            self.report("O19.2", f"{kind}-unpickled-clone-hash-differs", what, (s_v, s_c))
        try:
            cp = copy.deepcopy(v) if kind != "crs" else type(v)(v)
            s_p = self.crs_str_of({"kind": kind, "value": cp})
            if not (cp == v and v == cp):
                self.report("O19.4", f"{kind}-copy-not-equal", what, (s_v, s_p))
            if tokenize(cp) != tok:
                self.report("O19.3", f"{kind}-copy-token-differs", what, (s_v, s_p))
        except _Stop:
            raise
        except Exception as ex:  # pylint: disable=broad-except
            kind_, sig = classify_exception(ex)
            if kind_ == "repo":
                self.report("O19.4", f"{kind}-copy-raises:{sig}", what)
            raise
        # O19.6 history independence of str / hash / token of a CRS built from a spec
        if kind == "crs" and e.get("spec") is not None and e.get("via") == "spec":
            base = baseline(tuple(e["spec"]))
            if base is not None:
                got = (str(v), tok, e.get("hash"))
                if got != base:
                    which = [n for n, a, b in zip(("str", "token", "hash"), got, base) if a != b]
                    self.report("O19.6", "crs-" + "+".join(which) + "-depends-on-history", {**what, "got_str": str(v)[:60], "pristine_str": str(base[0])[:60]}, (str(v), str(base[0])))
        # pairs within the type
        same = [o for o in self.pool.values() if o is not e and o["kind"] == kind and type(o["value"]) is type(v)]
        for o in same:
            self.probes["pairs_checked"] += 1
            w = o["value"]
            eq1, eq2 = (v == w), (w == v)
            strs = (s_v, self.crs_str_of(o))
            pw = {"kind": kind, "a": e.get("spec"), "b": o.get("spec")}
            if eq1 != eq2:
                self.report("O19.1", f"{kind}-eq-not-symmetric", pw, strs)
            if (v != w) == eq1:
                self.report("O19.1", f"{kind}-ne-inconsistent", pw, strs)
            if eq1 and hashable and o.get("hashable") and e["hash"] != o["hash"]:
                self.report("O19.2", f"{kind}-equal-but-hashes-differ", pw, strs)
            if not eq1 and tok == o["token"]:
                self.report("O19.3", f"{kind}-unequal-but-same-token", pw, strs)
            if kind == "crs":
                self.check_want(e, o, eq1, pw, strs)
        # transitivity: x == y and y == new  =>  x == new
        for x, y in itertools.combinations(same, 2):
            if (x["value"] == y["value"]) and ((y["value"] == v) != (x["value"] == v)):
                self.report("O19.1", f"{kind}-eq-not-transitive", {"kind": kind, "a": x.get("spec"), "b": y.get("spec"), "c": e.get("spec")}, cause=self.chain_cause(x, y, e))

    def cross_interpreter(self, e: Dict[str, Any], hash_first: bool) -> None:
        """Pickle a value here, unpickle it in an interpreter with another string-hash seed and
        compare it there with the same value built from its spec: equal, equal hashes, and the
        token it has there is the token it has here."""
        p = _PEER.get("proc")
        spec = e.get("spec")
        if p is None or spec is None or e.get("via") not in (None, "spec"):
            return
        kind = e["kind"]
        req: Dict[str, Any] = {"kind": kind}
        if kind == "crs":
            if spec[1] not in STABLE_ROUTES:
                return
            req["spec"] = list(spec)
        else:
            crs_spec = spec[2] if len(spec) > 2 else None
            if crs_spec is not None and (not isinstance(crs_spec, list) or len(crs_spec) != 2 or crs_spec[1] not in STABLE_ROUTES):
                return
            req["variant"], req["crs_spec"] = spec[1], crs_spec
        v = e["value"]
        if hash_first and e.get("hashable"):
            _ = {v: 1}  # used as a dictionary key before it travels
        req["blob"] = pickle.dumps(v)
        _send(p.stdin, req)
        rep = _recv(p.stdout)
        self.probes["values_sent_to_other_interpreter"] += 1
        what = {"kind": kind, "spec": spec, "hashed_before_pickling": bool(hash_first and e.get("hashable"))}
        if "error" in rep:
            if rep.get("error_from_repo"):
                self.report("O19.4", f"{kind}-cannot-be-unpickled-in-another-interpreter", {**what, "error": rep["error"]})
            raise HarnessError(f"peer interpreter failed: {rep['error']}")
        if not rep["eq"]:
            self.report("O19.4", f"{kind}-not-equal-after-crossing-interpreters", what)
        if rep["hash_eq"] is False:
            self.report("O19.2", f"{kind}-equal-but-hashes-differ-across-interpreters", what)
        if rep["token"] != e["token"] or rep["token_rebuilt"] != e["token"]:
            self.report("O19.3", f"{kind}-token-differs-across-interpreters", what)

    def use_value(self, e: Dict[str, Any]) -> None:
        """Read-only use of a value (accessors, lookups, derived objects), then: its token and
        hash are what they were, it still equals the clone taken when it was created, and it
        can still be pickled and copied.  Accessor failures are not this property's business."""
        from dask.base import tokenize

        v, kind = e["value"], e["kind"]
        uses = {
            "crs": [lambda: v.geographic, lambda: v.units, lambda: v.dimensions, lambda: v.authority, lambda: v.valid_region, lambda: v.to_wkt()],
            "bbox": [lambda: v.span_x, lambda: v.points, lambda: v.polygon, lambda: v.buffered(1.0)],
            "geom": [lambda: v.is_valid, lambda: v.area, lambda: v.boundingbox, lambda: v.centroid, lambda: v.json, lambda: v.wkt],
            "geobox": [lambda: v.extent, lambda: v.boundingbox, lambda: v.resolution, lambda: v.coordinates, lambda: v.footprint("EPSG:4326"), lambda: v[1:3, 1:2], lambda: v.geographic_extent],
            "gcp": [lambda: v.extent, lambda: v.approx, lambda: v.pix2wld(1.0, 1.0), lambda: v.wld2pix(150.0, 440.0), lambda: v.resolution, lambda: v.gcps()],
            "gbtiles": [lambda: v[0, 0], lambda: v.chunks, lambda: v.base.extent, lambda: list(v.tiles(v.base.extent)), lambda: v.shape],
            "gridspec": [lambda: v[1, 2], lambda: v.tile_geobox((0, 0)), lambda: v.tile_geobox((-1, 3)).extent, lambda: list(v.tiles(v[0, 0].boundingbox)), lambda: v.dimensions],
            "tiles": [lambda: v[0, 0], lambda: v.shape, lambda: v.chunks, lambda: v.base],
            "vtiles": [lambda: v[0, 0], lambda: v.shape, lambda: v.chunks, lambda: v.base],
        }.get(kind, [lambda: v.x, lambda: v.y, lambda: v.xy, lambda: tuple(v.xy)])
        for f in uses:
            try:
                f()
            except Exception:  # pylint: disable=broad-except
                pass
        self.probes["values_used_then_rechecked"] += 1
        what = {"kind": kind, "spec": e.get("spec"), "after": "read-only use"}
        if tokenize(v) != e["token"]:
            self.report("O19.3", f"{kind}-token-changes-with-use", what)
        if e.get("hashable") and hash(v) != e["hash"]:
            self.report("O19.2", f"{kind}-hash-changes-with-use", what)
        c0 = e.get("clone")
        if c0 is not None and not (v == c0 and c0 == v):
            self.report("O19.4", f"{kind}-not-equal-to-earlier-clone-after-use", what)
        try:
            c1 = pickle.loads(pickle.dumps(v))
            c2 = copy.deepcopy(v) if kind != "crs" else type(v)(v)
        except Exception as ex:  # pylint: disable=broad-except
            kind_, sig = classify_exception(ex)
            self.report("O19.4", f"{kind}-cannot-be-pickled-or-copied-after-use", {**what, "exception": f"{type(ex).__name__}: {str(ex)[:120]}", "where": sig if kind_ == "repo" else "pickle"})
            return
        if not (c1 == v and v == c1 and c2 == v):
            self.report("O19.4", f"{kind}-unpickled-clone-not-equal-after-use", what)
        # the CRS strings of value and clone go along: a clone that differs from its original only
        # in the spelling of one and the same CRS is D19a's class here as it is in check_new (a
        # thorough run reported it unclassified: [crs 3857 pyproj_epsg] [crs 3857 pyproj_wkt] [use 1])
        s_v = self.crs_str_of(e)
        for c in (c1, c2):
            if tokenize(c) != e["token"]:
                self.report("O19.3", f"{kind}-clone-token-differs-after-use", what, (s_v, self.crs_str_of({"kind": kind, "value": c})))

    def recheck_crs_pool(self, e: Dict[str, Any]) -> None:
        """After an accessor that may fill lazily computed state: the laws must still hold
        between this value and the pool, and == must still be transitive over the whole pool."""
        crs = [o for o in self.pool.values() if o["kind"] == "crs"]
        v = e["value"]
        for o in crs:
            if o is e:
                continue
            w = o["value"]
            eq1, eq2 = (v == w), (w == v)
            strs = (str(v), str(w))
            pw = {"kind": "crs", "a": e.get("spec"), "b": o.get("spec"), "after": "epsg-read"}
            if eq1 != eq2:
                self.report("O19.1", "crs-eq-not-symmetric", pw, strs)
            if eq1 and e.get("hashable") and o.get("hashable") and hash(v) != hash(w):
                self.report("O19.2", "crs-equal-but-hashes-differ", pw, strs)
            self.check_want(e, o, eq1, pw, strs)
        for x, y, z in itertools.permutations(crs, 3):
            if x["value"] == y["value"] and y["value"] == z["value"] and not x["value"] == z["value"]:
                self.report("O19.1", "crs-eq-not-transitive", {"kind": "crs", "a": x.get("spec"), "b": y.get("spec"), "c": z.get("spec"), "after": "epsg-read"}, cause=self.chain_cause(x, y, z))

    # ---- transformer oracle O19.5
    def check_transform(self, a: Dict[str, Any], b: Dict[str, Any], xy: bool, quiet: bool = False) -> None:
        import numpy as np

        ca, cb = a["code"], b["code"]
        if ca not in REF["probe_xy"] or cb not in REF["probe_xy"]:
            return
        tr = a["value"].transformer_to_crs(b["value"], always_xy=xy)
        px, py = REF["probe_xy"][ca]
        if not xy and _axis_swapped(ca):
            px, py = py, px
        got = tr(px, py)
        want = _ref_transform(ca, cb, xy, px, py)
        self.probes["transformer_checks"] += 1
        geographic = REF["specs"][cb]["pp"].is_geographic
        tol = 1e-5 if geographic else 1.0
        ok = all(np.isfinite(g) and abs(g - w) <= tol for g, w in zip(got, want))
        if not quiet:
            self.log.add("tr", str(ca), str(cb), xy, bool(ok))
        if not ok:
            # confirm against a transformer built from the two CRSs' own definitions
            import pyproj

            own = pyproj.Transformer.from_crs(a["value"].proj.to_wkt(), b["value"].proj.to_wkt(), always_xy=xy).transform(px, py)
            if all(np.isfinite(g) and abs(g - w) <= tol for g, w in zip(got, own)):
                return
            self.report("O19.5", "transformer-converts-between-other-systems", {"src": a.get("spec"), "dst": b.get("spec"), "always_xy": xy, "got": [float(g) for g in got], "want": [float(w) for w in want]})
        if self.sim_ids.free:
            self.probes["transformer_requested_while_dead_address_available"] += 1

    # ---- steps
    def run(self) -> None:
        import odc.geo.crs as C

        gc.disable()
        C.id = self.sim_ids  # the module resolves the global name `id` at call time
        steps = self.record["workload"]["steps"]
        if any(s[0] == "race" for s in steps) and any(s[0] == "churn" for s in steps):
            self.probes["gadget_histories"] = 1
        for step in steps:
            self.steps_done += 1
            op = step[0]
            self.log.add("step", *[str(x)[:40] for x in step])
            if op == "crs":
                code, route = step[1], step[2]
                v = build_crs(code, route)
                self.note_built(code, route)
                self.add("crs", v, {"code": None if route == "proj4" else code, "spec": [code, route], "via": "spec"})
            elif op == "comp":
                kind, var, ref = step[1], step[2], step[3]
                crs = None
                if ref is not None:
                    r = self.pool.get(ref)
                    crs = r["value"] if r is not None and r["kind"] == "crs" else None
                if kind in NEEDS_CRS and ref is not None and crs is None:
                    self.skip_slot()
                    continue
                try:
                    v = build_comp(kind, var, crs)
                except _Skip:
                    self.skip_slot()
                    continue
                self.add(kind, v, {"spec": [kind, var, self.pool[ref]["spec"] if crs is not None else None]})
            elif op in ("copy", "pickle"):
                src = self.pool.get(step[1])
                if src is None:
                    self.skip_slot()
                    continue
                v = src["value"]
                if op == "pickle":
                    nv = pickle.loads(pickle.dumps(v))
                else:
                    nv = type(v)(v) if src["kind"] == "crs" else copy.deepcopy(v)
                self.add(src["kind"], nv, {"code": src.get("code"), "spec": [op, src.get("spec")], "via": op})
            elif op == "transform":
                a, b = self.pool.get(step[1]), self.pool.get(step[2])
                if a is None or b is None or a["kind"] != "crs" or b["kind"] != "crs":
                    continue
                self.check_transform(a, b, bool(step[3]))
            elif op == "drop":
                e = self.pool.pop(step[1], None)
                if e is not None:
                    e.clear()
                del e
            elif op == "gc":
                n = gc.collect()
                self.probes["gc_collected_objects"] += n
                self.ch.count("gc")
            elif op == "churn":
                other = self.pool.get(step[2])
                for code in step[1]:
                    c = build_crs(code, "int")
                    e = {"kind": "crs", "value": c, "code": code, "spec": [code, "int"]}
                    self._watch(e)
                    if other is not None and other["kind"] == "crs":
                        self.check_transform(e, other, bool(step[3]), quiet=True)
                self.ch.count("churn", len(step[1]))
            elif op == "xi":
                e = self.pool.get(step[1])
                if e is not None:
                    self.cross_interpreter(e, bool(step[2]))
            elif op == "use":
                e = self.pool.get(step[1])
                if e is not None:
                    self.use_value(e)
            elif op == "epsg":
                e = self.pool.get(step[1])
                if e is not None and e["kind"] == "crs":
                    _ = e["value"].epsg
                    self.recheck_crs_pool(e)
            elif op == "flood":
                self.flood(int(step[1]), self.pool.get(step[2]), bool(step[3]))
            elif op == "race":
                self.race(step[1], self.pool.get(step[2]) if len(step) > 2 else None, bool(step[3]) if len(step) > 3 else True)
            else:
                raise HarnessError(f"unknown step {op}")

    def flood(self, n: int, other: Optional[Dict[str, Any]], xy: bool) -> None:
        """Construct n never-seen CRSs (nothing keeps them but the library's own cache); the
        16th and the last ask for their transformer towards ``other`` (checked against pyproj)."""
        import numpy as np
        import pyproj
        from odc.geo.crs import CRS

        for i in range(n):
            self.n_flood += 1
            lon0 = 20 + self.n_flood * 0.01
            spec = f"+proj=tmerc +lat_0=0 +lon_0={lon0:.2f} +k=0.9996 +x_0=500000 +y_0=0 +datum=WGS84 +units=m +no_defs +type=crs"
            c = CRS(spec)
            if i not in (15, n - 1) or other is None or other["kind"] != "crs" or other.get("code") not in REF["probe_xy"]:
                continue  # two probes per flood: creating a transformer costs PROJ an operation search
            x, y = 500000.0, 1200000.0
            got = c.transformer_to_crs(other["value"], always_xy=xy)(x, y)
            opp = REF["specs"][other["code"]]["pp"]
            want = pyproj.Transformer.from_crs(pyproj.CRS.from_user_input(spec), opp, always_xy=xy).transform(x, y)
            self.probes["transformer_checks"] += 1
            tol = 1e-5 if opp.is_geographic else 1.0
            if not all(np.isfinite(g) and abs(g - w) <= tol for g, w in zip(got, want)):
                self.report("O19.5", "transformer-converts-between-other-systems", {"src": f"fresh tmerc lon_0={lon0:.2f} (flood #{i})", "dst": other.get("spec"), "always_xy": xy, "got": [float(g) for g in got], "want": [float(w) for w in want]})
        self.ch.count("flood", n)
        self.probes["flood_constructions"] += n

    def race(self, specs: List[List[Any]], other: Optional[Dict[str, Any]] = None, xy: bool = True) -> None:
        import cachetools._cached as CC
        import odc.geo.crs as C

        if other is not None and (other["kind"] != "crs" or other.get("code") not in REF["probe_xy"]):
            other = None
        tr_out: Dict[str, Any] = {}

        def work(name: str, code: Any, route: str) -> Any:
            c = build_crs(code, route)
            if other is not None and code in REF["probe_xy"]:
                px, py = REF["probe_xy"][code]
                if not xy and _axis_swapped(code):
                    px, py = py, px
                tr_out[name] = (code, px, py, c.transformer_to_crs(other["value"], always_xy=xy)(px, py))
            return c

        kernel = K.Kernel(trace_files=(C.__file__, CC.__file__))
        K.activate(kernel)
        results: Dict[str, Any] = {}
        try:
            for i, (code, route) in enumerate(specs):
                self.note_built(code, route)  # whichever thread wins, all of them have been built before the values are compared
                kernel.spawn(f"R{i}", lambda i=i, code=code, route=route: work(f"R{i}", code, route))
            before = 0
            try:
                done = K.run_threads(kernel, self.ch, step_budget=20000, log=None)
            except K.Deadlock as e:
                raise _Stop(Violation(PROP, "O19.8", "racing-construction-deadlock" if str(e) != "budget" else "racing-construction-step-budget", {"state": str(e)[:200]}))
            for name in sorted(done):
                rec = done[name]
                if rec.error is not None:
                    kind_, sig = classify_exception(rec.error)
                    if kind_ == "repo":
                        raise _Stop(Violation(PROP, "O19.8", f"racing-construction-raises:{sig}", {"thread": name}))
                    raise rec.error
                results[name] = rec.result
            self.switches += kernel.switches
            self.ch.count("preemption", kernel.switches)
        finally:
            kernel.shutdown()
            K.activate(None)
        if tr_out:
            import numpy as np

            self.probes["racing_transformer_requests"] += len(tr_out)
            for name in sorted(tr_out):
                code, px, py, got = tr_out[name]
                want = _ref_transform(code, other["code"], xy, px, py)
                tol = 1e-5 if REF["specs"][other["code"]]["pp"].is_geographic else 1.0
                self.probes["transformer_checks"] += 1
                if not all(np.isfinite(g) and abs(g - w) <= tol for g, w in zip(got, want)):
                    self.report("O19.5", "transformer-converts-between-other-systems", {"src": [code, "racing construction"], "dst": other.get("spec"), "always_xy": xy, "got": [float(g) for g in got], "want": [float(w) for w in want]})
        lk = getattr(C._make_crs, "cache_lock", None)
        if isinstance(lk, K.CoopLock):
            self.probes["race_lock_contended"] += int(lk.contended > self._lock_contended_seen)
            self._lock_contended_seen = lk.contended
        for i, (code, route) in enumerate(specs):
            v = results[f"R{i}"]
            self.add("crs", v, {"code": None if route == "proj4" else code, "spec": [code, route], "via": "race"})
        # probe: two racing threads ended up with different pyproj objects for one spec key
        vals = [results[f"R{i}"] for i in range(len(specs))]
        for (i, a), (j, b) in itertools.combinations(enumerate(vals), 2):
            if specs[i] == specs[j] and a.proj is not b.proj:
                self.probes["race_both_threads_missed_cache"] += 1
        del before


# --------------------------------------------------------------------------------------
# a second interpreter with another string-hash seed (what every dask worker is)
# --------------------------------------------------------------------------------------
_PEER: Dict[str, Any] = {}
PEER_HASHSEED = "271828"
STABLE_ROUTES = ("int", "EPSG", "epsg", "Epsg", "user", "user_lc", "user_mc")  # CRS spellings whose str() does not depend on the peer's own history


def _send(f, obj) -> None:
    b = pickle.dumps(obj, protocol=pickle.HIGHEST_PROTOCOL)
    f.write(len(b).to_bytes(8, "big"))
    f.write(b)
    f.flush()


def _recv(f) -> Any:
    n = f.read(8)
    if len(n) < 8:
        raise HarnessError("peer interpreter closed the pipe")
    return pickle.loads(f.read(int.from_bytes(n, "big")))


def ensure_peer() -> None:
    """Start (once per batch worker, before forking a history) an interpreter with a different
    PYTHONHASHSEED; forked history children talk to it through the inherited pipes."""
    import atexit
    import subprocess
    import sys

    p = _PEER.get("proc")
    if p is not None and p.poll() is None:
        return
    env = dict(os.environ)
    env["PYTHONHASHSEED"] = PEER_HASHSEED
    main = os.path.join(os.path.dirname(os.path.abspath(__file__)), "main.py")
    p = subprocess.Popen([sys.executable, main, "c19-peer"], env=env, stdin=subprocess.PIPE, stdout=subprocess.PIPE, stderr=subprocess.DEVNULL)
    hello = _recv(p.stdout)
    if hello.get("hashseed") != PEER_HASHSEED or hash("odcsim") == hello.get("probe"):
        raise HarnessError(f"peer interpreter does not have another hash seed: {hello}")
    _PEER["proc"] = p
    atexit.register(lambda: p.kill())


def peer_main() -> int:
    """Loop of the peer interpreter: unpickle what arrives, rebuild the same value locally from
    its spec, report equality / hash agreement / tokens."""
    import sys

    from dask.base import tokenize

    from . import bootstrap

    bootstrap.boot()
    parent_init("quick", {})
    out, inp = sys.stdout.buffer, sys.stdin.buffer
    _send(out, {"hashseed": os.environ.get("PYTHONHASHSEED"), "probe": hash("odcsim")})
    while True:
        try:
            req = _recv(inp)
        except Exception:  # pylint: disable=broad-except
            return 0
        rep: Dict[str, Any] = {}
        try:
            v = pickle.loads(req["blob"])
            crs = build_crs(*req["crs_spec"]) if req.get("crs_spec") else None
            w = build_crs(*req["spec"]) if req["kind"] == "crs" else build_comp(req["kind"], req["variant"], crs)
            rep["eq"] = bool(v == w and w == v)
            try:
                rep["hash_eq"] = hash(v) == hash(w)
            except TypeError:
                rep["hash_eq"] = None
            rep["token"] = tokenize(v)
            rep["token_rebuilt"] = tokenize(w)
        except Exception as e:  # pylint: disable=broad-except
            kind_, sig = classify_exception(e)
            rep["error"] = f"{type(e).__name__}: {str(e)[:160]}"
            rep["error_from_repo"] = kind_ == "repo"
        _send(out, rep)


_PENDING_BASELINE: Dict[Tuple[Any, str], Any] = {}


def baseline(spec: Tuple[Any, str]) -> Optional[Tuple[str, str, int]]:
    """(str, token, hash) of a CRS built from ``spec`` with nothing constructed before.
    Collected by the batch worker (never in the child) through ``ensure_baselines``."""
    return BASELINE.get(spec)


def _in_fork(fn, *a):
    r, w = os.pipe()
    pid = os.fork()
    if pid == 0:
        os.close(r)
        try:
            try:
                out = ("ok", fn(*a))
            except BaseException as e:  # pylint: disable=broad-except
                import traceback

                out = ("err", "".join(traceback.format_exception(e))[-4000:])
            with os.fdopen(w, "wb") as f:
                pickle.dump(out, f, protocol=pickle.HIGHEST_PROTOCOL)
        finally:
            os._exit(0)
    os.close(w)
    with os.fdopen(r, "rb") as f:
        buf = f.read()
    os.waitpid(pid, 0)
    if not buf:
        raise HarnessError("forked child died without a result")
    status, val = pickle.loads(buf)
    if status != "ok":
        raise HarnessError(f"forked child failed:\n{val}")
    return val


def _baseline_child(spec: Tuple[Any, str]):
    from dask.base import tokenize

    try:
        c = build_crs(spec[0], spec[1])
    except Exception as e:  # pylint: disable=broad-except
        if classify_exception(e)[0] != "repo":
            raise
        return None  # no pristine reference; the history itself meets and reports the exception
    return (str(c), tokenize(c), hash(c))


def ensure_baselines(record: dict) -> None:
    for step in record["workload"]["steps"]:
        specs = []
        if step[0] == "crs":
            specs = [tuple(step[1:3])]
        elif step[0] == "race":
            specs = [tuple(s) for s in step[1]]
        for sp in specs:
            if sp not in BASELINE:
                BASELINE[sp] = _in_fork(_baseline_child, sp)


def ensure_refs(record: dict) -> None:
    """Build the pyproj reference transformers a history will need in the worker (before the
    fork), so that children inherit them instead of paying PROJ's operation search each time."""
    code_of: Dict[int, Any] = {}
    n = 0
    need = set()
    for st in record["workload"]["steps"]:
        op = st[0]
        if op == "crs":
            code_of[n] = st[1]
            n += 1
        elif op == "comp":
            n += 1
        elif op in ("copy", "pickle"):
            code_of[n] = code_of.get(st[1])
            n += 1
        elif op == "race":
            if len(st) > 2:
                b = code_of.get(st[2])
                if b is not None:
                    for sp in st[1]:
                        need.add((sp[0], b, bool(st[3])))
            for sp in st[1]:
                code_of[n] = sp[0]
                n += 1
        elif op == "transform":
            a, b = code_of.get(st[1]), code_of.get(st[2])
            if a is not None and b is not None:
                need.add((a, b, bool(st[3])))
        elif op == "churn":
            b = code_of.get(st[2])
            if b is not None:
                for c in st[1]:
                    need.add((c, b, bool(st[3])))
    import pyproj

    for k in need:
        if k not in REF["tr"] and k[0] in REF["probe_xy"] and k[1] in REF["probe_xy"]:
            REF["tr"][k] = pyproj.Transformer.from_crs(REF["specs"][k[0]]["pp"], REF["specs"][k[1]]["pp"], always_xy=k[2])


def _history_child(record: dict, rng_state: Any):
    try:  # LAPACK writes warnings straight to fd 2 (polynomial fits of GCP mappings); errors travel through the pipe
        os.dup2(os.open(os.devnull, os.O_WRONLY), 2)
    except OSError:
        pass
    rng = None
    if rng_state is not None:
        rng = random.Random()
        rng.setstate(rng_state)
    h = History(record, rng)
    v: Optional[Violation] = None
    try:
        h.run()
    except _Stop as s:
        v = s.v
    except HarnessError:
        raise
    except Exception as e:  # pylint: disable=broad-except
        kind_, sig = classify_exception(e)
        if kind_ != "repo":
            raise
        v = Violation(PROP, "O19.8", f"exception:{sig}", {"message": str(e)[:200], "step": h.steps_done, "cause": None})
    if v is None and h.known:
        # one outcome per run: a classified violation that no listed finding covers comes first, so
        # that a listed one met earlier in the same history never hides it
        # (and among listed ones the entry furthest down the file, the rarer classes, is the one shown)
        listed = REF.get("known_findings", [])

        def rank(k: Violation) -> int:
            f = match_known(PROP, k.as_dict(), listed)
            return len(listed) if f is None else listed.index(f)

        v = max(h.known, key=rank)  # first of the highest rank
    h.probes["address_seam_calls"] = h.sim_ids.calls
    steps = record["workload"]["steps"]
    ncrs = sum(1 for s in steps if s[0] == "crs") + sum(len(s[1]) for s in steps if s[0] == "race")
    nontrivial = ncrs >= 2 and any(s[0] in ("transform", "race", "comp", "gc") for s in steps)
    cls = (str(steps), tuple(h.ch.schedule_out[:300]))
    sample = {"steps": steps, "race_schedule_rle": _rle(h.ch), "known_class": [k.sig for k in h.known[:5]], "pool_size_end": len(h.pool)}
    return {
        "violation": None if v is None else v.as_dict(),
        "digest": h.log.hex(),
        "schedule": h.ch.schedule_out,
        "faults": h.ch.faults_out,
        "fault_counts": h.ch.fault_counts,
        "probes": h.probes,
        "cls": cls,
        "nontrivial": nontrivial,
        "sample": sample,
        "steps": h.steps_done,
        "known_sigs": sorted({(k.oracle, k.sig) for k in h.known}),
    }


def _rle(ch: Chooser) -> List[Any]:
    from .core import compress_schedule

    return compress_schedule(ch.schedule_out)[:30]


def execute(record: dict, rng: Optional[random.Random]) -> Outcome:
    import odc.geo.crs as C

    if len(getattr(C, "_crs_cache", ())) != 0:
        raise HarnessError("C19 worker is not pristine: the CRS cache is not empty")
    ensure_baselines(record)
    ensure_refs(record)
    if any(st[0] == "xi" for st in record["workload"]["steps"]):
        ensure_peer()
    gc.freeze()  # children collect only what they allocate themselves (the inherited heap is large)
    res = _in_fork(_history_child, record, None if rng is None else rng.getstate())
    ch = Chooser(None, [], [], None)
    ch.schedule_out = [tuple(e) for e in res["schedule"]]
    ch.faults_out = [tuple(f) for f in res["faults"]]
    ch.fault_counts = dict(res["fault_counts"])
    vd = res["violation"]
    v = None if vd is None else Violation(PROP, vd["oracle"], vd["sig"], vd["detail"])
    return Outcome(v, res["digest"], ch, stats={"probes": res["probes"]}, cls=res["cls"], nontrivial=res["nontrivial"], sample=res["sample"], steps=res["steps"])


# --------------------------------------------------------------------------------------
# shrinking
# --------------------------------------------------------------------------------------
def _slots_made(step: List[Any]) -> int:
    if step[0] in ("crs", "comp", "copy", "pickle"):
        return 1
    if step[0] == "race":
        return len(step[1])
    return 0


def _drop_step(steps: List[List[Any]], i: int) -> Optional[List[List[Any]]]:
    """Remove step i; renumber slot references; drop steps that referenced a removed slot."""
    first = sum(_slots_made(s) for s in steps[:i])
    n = _slots_made(steps[i])
    gone = set(range(first, first + n))

    def ren(s: Optional[int]) -> Optional[int]:
        if s is None:
            return None
        if s in gone:
            return -1
        return s - n if s >= first + n else s

    out: List[List[Any]] = []
    for j, s in enumerate(steps):
        if j == i:
            continue
        s = copy.deepcopy(s)
        if s[0] in ("copy", "pickle", "drop", "epsg", "use", "xi"):
            s[1] = ren(s[1])
            if s[1] == -1:
                if s[0] in ("drop", "epsg", "use", "xi"):
                    continue
                return None
        elif s[0] == "transform":
            s[1], s[2] = ren(s[1]), ren(s[2])
            if -1 in (s[1], s[2]):
                continue
        elif s[0] == "comp":
            s[3] = ren(s[3])
            if s[3] == -1:
                s[3] = None
        elif s[0] in ("churn", "flood"):
            s[2] = ren(s[2])
            if s[2] == -1:
                continue
        elif s[0] == "race" and len(s) > 2:
            s[2] = ren(s[2])
            if s[2] == -1:
                s = s[:2]
        out.append(s)
    return out


def candidates(record: dict) -> Iterable[dict]:
    steps = record["workload"]["steps"]
    if record["config"].get("policy") is not None:
        c = copy.deepcopy(record)
        c["config"]["policy"] = None
        yield c
    n = len(steps)
    # drop tails first (cheap big wins), then single steps
    for k in (n // 2, n // 4):
        if k >= 1:
            c = copy.deepcopy(record)
            c["workload"]["steps"] = steps[: n - k]
            yield c
    for i in range(n - 1, -1, -1):
        ns = _drop_step(steps, i)
        if ns:
            c = copy.deepcopy(record)
            c["workload"]["steps"] = ns
            yield c
    for i, s in enumerate(steps):
        if s[0] == "race" and len(s[1]) > 2:
            pass
        if s[0] == "flood" and s[1] > 1:
            for nv in sorted({1, s[1] // 2, s[1] - 1}):
                if nv < s[1]:
                    c = copy.deepcopy(record)
                    c["workload"]["steps"][i][1] = nv
                    yield c
        if s[0] == "churn" and len(s[1]) > 1:
            c = copy.deepcopy(record)
            c["workload"]["steps"][i][1] = s[1][: len(s[1]) // 2]
            yield c
        if s[0] == "crs" and s[2] not in ("int",):
            c = copy.deepcopy(record)
            c["workload"]["steps"][i][2] = "int" if isinstance(s[1], int) else "wkt2019"
            yield c
        if s[0] == "comp" and s[2] != 0:
            c = copy.deepcopy(record)
            c["workload"]["steps"][i][2] = 0
            yield c
