"""C18 -- part writers: upload initiated exactly once; sinks honour their contract.

Real MultiPartUpload / DelayedS3Writer / S3Limits (_s3.py) and MPUFileSink (_mpu_fs.py) are
called from simulated threads (ThreadSim, line-level pre-emption in both files) against
FakeS3, the fake distributed cluster and the real file system.  Scenarios: in-process,
cluster-coordinated, file sink, limits.  Oracles O18.1 - O18.7 (DESIGN.md section 5).
"""

from __future__ import annotations

import copy
import os
import pickle
import random
import shutil
import tempfile
from pathlib import Path
from typing import Any, Dict, Iterable, List, Optional, Tuple

from . import fakes
from . import kernel as K
from .c06 import chunk_bytes
from .core import Chooser, Digest, HarnessError, Outcome, Violation, draw_policy, exc_to_violation

PROP = "C18"
RULE = (
    "each run draws a scenario (in-process shared writer / cluster-coordinated writer copies with fake distributed Variable+Lock, prepared or "
    "unprepared variable, optional second object / file sink with shared and pickled copies and four parts-directory placements / limit "
    "configurations / the same object uploaded twice back to back through one cluster, the first upload's Variable.delete() possibly still in flight), 2-4 threads with their part lists and sizes, a finaliser, and a thread-scheduling policy; threads are pre-empted before "
    "every source line of _s3.py / _mpu_fs.py and at every S3 / Variable / Lock call. Non-trivial: at least two threads ran and at least one "
    "context switch happened inside the operation. Distinct: (scenario configuration, sequence of conflict events with thread identities)."
)
DISTINCT_MEASURE = "hash of (scenario, workload, ordered conflict events: S3 calls, Variable get/set/delete/timeouts, lock acquire/release, with thread identities)"
COMPONENTS_REAL = [
    "odc.geo.cog._s3: MultiPartUpload, DelayedS3Writer (_ensure_init, prep_client, cleanup_client, __call__, finalise), S3Limits, _mpu_local_lock, _dask_client",
    "odc.geo.cog._mpu_fs: MPUFileSink on the real kernel file system (/dev/shm and /tmp for the cross-device placement)",
    "pickle round trips of writers (worker copies)",
]
COMPONENTS_STUB = ["S3 service (FakeS3)", "distributed.get_client / Variable / Lock (fakes with the installed signatures)", "wall clock (virtual time for Variable.get timeouts)", "thread scheduler (ThreadSim baton kernel)"]
HAZARD_PROBES = ["stale_delete_disturbed_second_upload"]
ASSUMPTIONS = [
    "S3 errors, lock-lease expiry, disk errors and torn writes are not injected: the statement makes no promise about them",
    "finalise runs after every write has returned (the multi-part protocol guarantees it)",
    "re-upload scenario: a Variable.delete() of an earlier upload that is delivered while a later upload of the same object is under way (message-delay fault) is outside the statement; what it does is counted as hazard probe stale_delete_disturbed_second_upload, never reported",
    "fake distributed primitives mirror the installed signatures; fidelity rests on selftest-conformance",
]
STEP_BUDGET = 20000


def _trace_files() -> Tuple[str, ...]:
    from odc.geo.cog import _mpu_fs, _s3

    return (_s3.__file__, _mpu_fs.__file__)


# --------------------------------------------------------------------------------------
# generation
# --------------------------------------------------------------------------------------
def generate(rng: random.Random, tier: str) -> dict:
    scen = rng.choice(["inproc"] * 3 + ["cluster"] * 4 + ["sink"] * 4 + ["limits"] + ["reupload"])
    policy = draw_policy(rng, groups=None, horizon=300)
    if policy["kind"] in ("lifo", "fifo"):
        policy = {"kind": "uniform"}
    cfg: Dict[str, Any] = {"scenario": scen, "policy": policy}
    wl: Dict[str, Any] = {}
    wide = tier == "thorough" and rng.random() < 0.2
    if scen == "inproc":
        T = rng.choice([2, 2, 3]) if not wide else 4
        nparts = rng.randint(T, T + 3)
        wl["threads"] = _assign(rng, T, nparts, first=2)
        wl["sizes"] = {str(p): rng.choice([5, 6, 9, 20]) for t in wl["threads"] for p in t}
        wl["finaliser"] = rng.choice(["fresh"] + list(range(T)))
        wl["part_base"] = rng.choice([0, 0, 95, 9990])
        cfg["kw"] = rng.choice([{}, {"ContentType": "image/tiff"}])
    elif scen == "cluster":
        W = rng.choice([1, 2, 2, 3]) if not wide else rng.choice([3, 4])
        tpw = [rng.choice([1, 1, 2]) for _ in range(W)]
        T = sum(tpw)
        if T < 2:
            tpw[0] = 2
            T = 2
        nparts = rng.randint(T, T + 3)
        assign = _assign(rng, T, nparts, first=2)
        threads = []
        i = 0
        for w, n in enumerate(tpw):
            for _t in range(n):
                threads.append({"worker": w, "parts": assign[i]})
                i += 1
        wl["threads"] = threads
        wl["sizes"] = {str(p): rng.choice([5, 6, 9, 20]) for t in threads for p in t["parts"]}
        wl["finaliser"] = rng.choice(["fresh", "fresh"] + list(range(T)))
        cfg["prepped"] = rng.random() < 0.6
        cfg["copy_per_task"] = rng.random() < 0.4
        cfg["second_object"] = rng.random() < 0.35
        cfg["second_variant"] = rng.choice(["other-key", "other-bucket", "other-endpoint"])
        cfg["overlap_lifecycles"] = cfg["second_object"] and T >= 2 and rng.random() < 0.5
        wl["part_base"] = rng.choice([0, 0, 95, 9990])
        cfg["kw"] = {}
    elif scen == "reupload":
        # the same object written twice through one cluster, the second upload starting the moment the first is
        # finalised; the first upload's Variable.delete() may still be in flight (message-delay fault)
        wl["rounds"] = []
        p0 = 1
        for _r in range(2):
            T = rng.choice([2, 2, 3])
            nparts = rng.randint(T, T + 2)
            assign = _assign(rng, T, nparts, first=p0)
            wl["rounds"].append({"threads": assign, "prepped": rng.random() < 0.6})
        wl["sizes"] = {str(p): rng.choice([5, 6, 9, 20]) for r in wl["rounds"] for t in r["threads"] for p in t}
        cfg["delete_in_flight"] = rng.random() < 0.6
        cfg["kw"] = {}
    elif scen == "sink":
        T = rng.choice([1, 2, 2, 3, 4])
        nparts = rng.randint(1, 12)
        wl["threads"] = _assign(rng, T, nparts, first=1)
        wl["sizes"] = {str(p): rng.choice([0, 1, 10, 4095, 4096, 4097, 65536] if rng.random() < 0.5 else [0, 1, 3, 10]) for t in wl["threads"] for p in t}
        wl["shared"] = [rng.random() < 0.5 for _ in range(T)]  # thread uses the shared sink or a pickled copy
        order = sorted(int(p) for p in wl["sizes"])
        if rng.random() < 0.3:
            rng.shuffle(order)
        wl["final_order"] = order
        wl["finaliser"] = rng.choice(["orig"] + list(range(T)))
        wl["part_base"] = rng.choice([0, 0, 95, 9990, -1, 12340])  # -1: numbering starts at part 0
        if rng.random() < 0.04:
            k_ = rng.choice(sorted(wl["sizes"]))
            wl["sizes"][k_] = (1 << 20) + 1  # beyond any small-file shortcut
        cfg["dst_name"] = rng.choice(["final.bin"] * 3 + ["we ird%{name}[1] #2.tif", "\u00fcml\u00e4ut-\u6587.tif", ".hidden", "a.b.c.parts"])
        cfg["dst_exists"] = rng.random() < 0.15
        cfg["keep_parts"] = rng.choice([None, None, False, True])
        cfg["place"] = rng.choice(["default", "base-exists", "base-nested", "base-relative", "xdev"])
        cfg["limits"] = _draw_limits(rng)
        cfg["dst_as_str"] = rng.random() < 0.5
    else:
        cfg["limits"] = _draw_limits(rng)
        cfg["place"] = rng.choice(["default", "base-exists"])
    if scen in ("inproc", "cluster"):
        # domain: S3 part numbers are 1..10000 (the caller's business, like the part budget in C06)
        top = max(p for t in wl["threads"] for p in (t["parts"] if isinstance(t, dict) else t))
        wl["part_base"] = max(0, min(int(wl.get("part_base", 0)), 10_000 - top))
    return {"config": cfg, "workload": wl}


def _draw_limits(rng: random.Random) -> Dict[str, int]:
    lim: Dict[str, int] = {}
    for k, vals in (("min_write_sz", [1, 100, 4096, 8000]), ("max_write_sz", [10_000, 1 << 20, 1 << 33]), ("min_part", [1, 3, 20]), ("max_part", [50, 9_999, 100_000])):
        if rng.random() < 0.5:
            lim[k] = rng.choice(vals)
    return lim


def _assign(rng: random.Random, T: int, nparts: int, first: int) -> List[List[int]]:
    """Every thread gets at least one part when nparts >= T; part numbers are distinct."""
    parts = list(range(first, first + nparts))
    rng.shuffle(parts)
    out: List[List[int]] = [[] for _ in range(T)]
    for i, p in enumerate(parts):
        out[i if i < T else rng.randrange(T)].append(p)
    return out


# --------------------------------------------------------------------------------------
# execution
# --------------------------------------------------------------------------------------
_SEQ = [0]


def execute(record: dict, rng: Optional[random.Random]) -> Outcome:
    """Every run executes in a child forked from a process that has imported everything but has
    never run the code under test: hidden module state cannot leak from one run into the next."""
    import gc

    from .core import fork_call, outcome_from_dict

    gc.freeze()
    return outcome_from_dict(fork_call(_execute_in_child, record, None if rng is None else rng.getstate()))


def _execute_in_child(record: dict, rng_state: Any) -> dict:
    from .core import outcome_to_dict

    rng = None
    if rng_state is not None:
        rng = random.Random()
        rng.setstate(rng_state)
    return outcome_to_dict(_execute(record, rng))


def _execute(record: dict, rng: Optional[random.Random]) -> Outcome:
    cfg = record["config"]
    scen = cfg["scenario"]
    ch = Chooser(rng, record.get("schedule"), record.get("faults"), cfg.get("policy"))
    log = Digest()
    if scen in ("inproc", "cluster"):
        return _exec_s3(record, ch, log)
    if scen == "reupload":
        return _exec_reupload(record, ch, log)
    if scen == "sink":
        return _exec_sink(record, ch, log)
    return _exec_limits(record, ch, log)


def _data(part: int, size: int) -> bytes:
    return chunk_bytes(part, size)


def _drive(kernel: K.Kernel, ch: Chooser, log: Digest, results: Dict[str, Any], on_done: Any = None) -> Optional[Violation]:
    """Run all spawned threads to completion; map thread errors / deadlock to violations."""
    try:
        done = K.run_threads(kernel, ch, step_budget=STEP_BUDGET, log=log, on_done=on_done)
    except K.Deadlock as e:
        sig = "step-budget-exhausted" if str(e) == "budget" else "deadlock"
        return Violation(PROP, "O18.4", sig, {"state": str(e)[:300]})
    for name in sorted(done):
        rec = done[name]
        if rec.error is not None:
            return exc_to_violation(PROP, "O18.3", rec.error, extra={"thread": name})
        results[name] = rec.result
    return None


def _exec_s3(record: dict, ch: Chooser, log: Digest) -> Outcome:
    # pylint: disable=too-many-locals,too-many-branches,too-many-statements
    from odc.geo.cog import _s3 as S

    cfg, wl = record["config"], record["workload"]
    scen = cfg["scenario"]
    s3 = fakes.FakeS3(min_part_size=5)
    cluster = fakes.FakeCluster()
    kernel = K.Kernel(trace_files=_trace_files())
    probes = {
        "lock_contended_inproc": 0,
        "dlock_contended": 0,
        "var_get_timeout": 0,
        "var_get_wait_then_value": 0,
        "two_threads_passed_unlocked_check": 0,
        "finalise_on_copy_that_never_wrote": 0,
        "second_object": 0,
        "scenario_inproc": int(scen == "inproc"),
        "scenario_cluster": int(scen == "cluster"),
        "overlapping_lifecycles": 0,
        "part_numbers_near_10000": int(wl.get("part_base", 0) >= 9000),
        "same_key_in_two_buckets": int(bool(cfg.get("second_object") and (cfg.get("second_variant") == "other-bucket" or cfg.get("second_same_key_other_bucket")))),
        "same_object_name_behind_two_endpoints": int(bool(cfg.get("second_object") and cfg.get("second_variant") == "other-endpoint")),
    }
    getattr(S, "_state", {}).clear()
    fakes.install_fake_s3(s3)
    fakes.install_distributed_fakes(cluster)
    K.activate(kernel)
    v: Optional[Violation] = None
    sizes = {int(k): v_ for k, v_ in wl["sizes"].items()}
    bucket = "bkt"
    keys = ["a/obj.tif"] + (["a/obj2.tif"] if cfg.get("second_object") else [])
    # the second object may be the SAME key in another bucket: coordination state must not be shared
    bucket_of = {k: bucket for k in keys}  # as the (fake) service sees it: "<endpoint>|<bucket>" for a non-default endpoint
    real_bucket = {k: bucket for k in keys}
    endpoint_of: Dict[str, Optional[str]] = {k: None for k in keys}
    variant = cfg.get("second_variant") or ("other-bucket" if cfg.get("second_same_key_other_bucket") else "other-key")
    if cfg.get("second_object") and variant in ("other-bucket", "other-endpoint"):
        keys = ["a/obj.tif", "a/obj.tif@other"]  # internal handle; real key below
        if variant == "other-bucket":
            bucket_of = {"a/obj.tif": bucket, "a/obj.tif@other": "other-bkt"}
            real_bucket = dict(bucket_of)
            endpoint_of = {k: None for k in keys}
        else:  # the same bucket and key behind another endpoint
            ep = "http://other-endpoint:9000"
            bucket_of = {"a/obj.tif": bucket, "a/obj.tif@other": f"{ep}|{bucket}"}
            real_bucket = {k: bucket for k in keys}
            endpoint_of = {"a/obj.tif": None, "a/obj.tif@other": ep}
    real_key = {k: k.split("@")[0] for k in keys}
    receipts: Dict[str, Dict[int, Any]] = {k: {} for k in keys}
    sent: Dict[str, Dict[int, bytes]] = {k: {} for k in keys}
    nthreads = 0
    thread_writers: Dict[str, Dict[str, Any]] = {}
    try:
        try:
            client = fakes.FakeClient(cluster, "client0")
            writers: Dict[str, Any] = {}
            for key in keys:
                mpu = S.MultiPartUpload(real_bucket[key], real_key[key], endpoint_url=endpoint_of[key])
                if scen == "inproc":
                    cluster.default_client = None
                    writers[key] = mpu.writer(cfg.get("kw", {}))
                else:
                    if cfg.get("prepped"):
                        # graph is built where a client exists: prep_client sets the variable to None
                        cluster.default_client = client
                        writers[key] = mpu.writer(cfg.get("kw", {}), client=client)
                    else:
                        cluster.default_client = None
                        writers[key] = mpu.writer(cfg.get("kw", {}))
                        cluster.default_client = client
            cluster.default_client = client if scen == "cluster" else None

            def mk_copy(key: str) -> Any:
                return pickle.loads(pickle.dumps(writers[key]))

            specs = wl["threads"]
            base = int(wl.get("part_base", 0))
            overlap = bool(cfg.get("overlap_lifecycles")) and len(keys) > 1 and len(specs) >= 2
            writers_of: Dict[str, set] = {k: set() for k in keys}
            worker_copy: Dict[Tuple[int, str], Any] = {}
            for ti, spec in enumerate(specs):
                if scen == "inproc":
                    name = f"T{ti}"
                    parts = spec
                    tw = {key: writers[key] for key in keys}
                else:
                    name = f"W{spec['worker']}.T{ti}"
                    parts = spec["parts"]
                    tw = {}
                    for key in keys:
                        if cfg.get("copy_per_task"):
                            tw[key] = None  # fresh copy per write
                        else:
                            wk = (spec["worker"], key)
                            if wk not in worker_copy:
                                worker_copy[wk] = mk_copy(key)
                            tw[key] = worker_copy[wk]
                thread_writers[name] = tw

                # overlapping lifecycles: every thread serves one object only, and an object is
                # finalised as soon as its own writers are done - while the other is still writing
                my_keys = [keys[ti % len(keys)]] if overlap else list(keys)

                def body(name=name, parts=parts, tw=tw, my_keys=my_keys):
                    for p in parts:
                        for key in my_keys:
                            w = tw[key] if tw[key] is not None else mk_copy(key)
                            data = _data(p + (100 if key != keys[0] else 0), sizes[p])
                            sent[key][p + base] = data
                            receipts[key][p + base] = w(p + base, data)
                    return True

                kernel.spawn(name, body)
                for key in my_keys:
                    writers_of[key].add(name)
                nthreads += 1
            res: Dict[str, Any] = {}
            fin = wl.get("finaliser", "fresh")
            fin_results: Dict[str, Any] = {}

            def fin_body(fkeys):
                for key in fkeys:
                    if fin == "fresh" or scen == "inproc":
                        w = writers[key] if scen == "inproc" else mk_copy(key)
                        if scen != "inproc":
                            probes["finalise_on_copy_that_never_wrote"] = 1
                    else:
                        tname = sorted(thread_writers)[int(fin) % len(thread_writers)]
                        w = thread_writers[tname][key] or mk_copy(key)
                    parts = [receipts[key][p] for p in sorted(receipts[key])]
                    fin_results[key] = w.finalise(parts)
                return True

            fprefix = "F" if scen == "inproc" else "W9.F"
            if overlap:
                probes["overlapping_lifecycles"] = 1
                spawned = set()

                def on_done(name, rec):
                    if rec.error is not None:
                        return
                    for key in keys:
                        writers_of[key].discard(name)
                        if not writers_of[key] and key not in spawned and receipts[key]:
                            spawned.add(key)
                            kernel.spawn(f"{fprefix}{keys.index(key)}", lambda key=key: fin_body([key]))

                v = _drive(kernel, ch, log, res, on_done=on_done)
                if v is None:
                    for key in keys:  # an object none of whose writers got a part (cannot happen with T >= 2)
                        if key not in spawned and receipts[key]:
                            kernel.spawn(f"{fprefix}{keys.index(key)}", lambda key=key: fin_body([key]))
                    v = _drive(kernel, ch, log, res)
            else:
                v = _drive(kernel, ch, log, res)
                if v is None:
                    # finalise after every write has returned
                    kernel.spawn(fprefix, lambda: fin_body(keys))
                    v = _drive(kernel, ch, log, res)
            if v is None:
                v = _check_s3(s3, cluster, bucket_of, real_key, [k for k in keys if receipts[k]], sent, receipts, fin_results, real_bucket)
        except HarnessError:
            raise
        except Exception as e:  # pylint: disable=broad-except
            v = exc_to_violation(PROP, "O18.3", e, extra={"phase": "setup"})
    finally:
        kernel.shutdown()
        K.activate(None)
        fakes.uninstall_distributed_fakes()
        fakes.uninstall_fake_s3()
        lk = getattr(S, "_state", {}).get("mpu_lock")
        if isinstance(lk, K.CoopLock):
            probes["lock_contended_inproc"] = int(lk.contended > 0)
            probes["two_threads_passed_unlocked_check"] = int(lk.acquisitions >= 2)
        getattr(S, "_state", {}).clear()
    for k_, c in cluster.counters.items():
        if k_ in probes:
            probes[k_] = c
    probes["second_object"] = int(len(keys) > 1)
    ch.count("preemption", kernel.switches)
    ch.count("timeout_fired", cluster.counters["var_get_timeout"])
    ch.count("writer_copy", sum(1 for n_ in thread_writers) if scen == "cluster" else 0)
    conflict = tuple(s3.calls) + tuple((e[0], e[1], e[2]) for e in cluster.events)
    for c in s3.calls:
        log.add(*c)
    for e in cluster.events:
        log.add(*e[:3])
    cls = (scen, str(record["workload"]), cfg.get("prepped"), cfg.get("copy_per_task"), cfg.get("second_object"), conflict)
    sample = {"config": cfg, "workload": wl, "s3_calls": [list(map(str, c)) for c in s3.calls[:30]], "cluster_events": [list(map(str, e)) for e in cluster.events[:40]], "schedule_rle_head": _rle_head(ch), "context_switches": kernel.switches, "steps": kernel.steps, "virtual_time": kernel.now}
    return Outcome(v, log.hex(), ch, stats={"probes": probes}, cls=cls, nontrivial=nthreads >= 2 and kernel.switches > 0, sample=sample, steps=kernel.steps, sim_time=kernel.now)


def _exec_reupload(record: dict, ch: Chooser, log: Digest) -> Outcome:
    """Two uploads of one object through one cluster, back to back.  Each upload on its own has to satisfy the
    statement (one initiation, one upload id, no failed write).  With ``delete_in_flight`` the first upload's
    ``Variable.delete()`` is a message the scheduler (the Chooser) delivers whenever it likes - possibly after the
    second upload has published its id.  What a message left in flight by an EARLIER upload does to a later one is
    outside the statement (interleavings of the workers of one upload): it is counted as a hazard probe, never
    reported; without the fault every deviation is a violation."""
    # pylint: disable=too-many-locals,too-many-statements
    from odc.geo.cog import _s3 as S

    cfg, wl = record["config"], record["workload"]
    s3 = fakes.FakeS3(min_part_size=5)
    cluster = fakes.FakeCluster()
    kernel = K.Kernel(trace_files=_trace_files())
    probes = {"scenario_reupload": 1, "delete_in_flight_runs": 0, "delete_delivered_during_second_upload": 0, "stale_delete_disturbed_second_upload": 0, "var_get_timeout": 0}
    getattr(S, "_state", {}).clear()
    fakes.install_fake_s3(s3)
    fakes.install_distributed_fakes(cluster)
    K.activate(kernel)
    sizes = {int(k): v_ for k, v_ in wl["sizes"].items()}
    client = fakes.FakeClient(cluster, "client0")
    bucket, key = "bkt", "a/obj.tif"
    state: Dict[str, Any] = {"round": 0, "second_started": False, "late_delivery": False}
    if cfg.get("delete_in_flight"):
        cluster.delete_in_flight = lambda name: ch.fault("delete_in_flight", ("delete", state["round"]), 0.85)
        probes["delete_in_flight_runs"] = 1

        def delivered(_name):
            if state["second_started"]:
                state["late_delivery"] = True

        cluster.on_delivered = delivered
    rounds: List[Dict[str, Any]] = []
    v: Optional[Violation] = None
    try:
        try:

            def start_round(ri: int) -> None:
                rnd = wl["rounds"][ri]
                state["round"] = ri
                mpu = S.MultiPartUpload(bucket, key)
                if rnd["prepped"]:
                    cluster.default_client = client
                    writer = mpu.writer(cfg.get("kw", {}), client=client)
                else:
                    cluster.default_client = None
                    writer = mpu.writer(cfg.get("kw", {}))
                cluster.default_client = client
                R: Dict[str, Any] = {"sent": {}, "receipts": {}, "pending": set(), "fin": None, "first_call": len(s3.calls)}
                rounds.append(R)
                for ti, parts in enumerate(rnd["threads"]):
                    name = f"W{ti}.R{ri}"
                    w = pickle.loads(pickle.dumps(writer))

                    def body(parts=parts, w=w, R=R, ri=ri):
                        for p in parts:
                            data = _data(p + 1000 * ri, sizes[p])
                            R["sent"][p] = data
                            R["receipts"][p] = w(p, data)
                        return True

                    kernel.spawn(name, body)
                    R["pending"].add(name)
                R["writer"] = writer

            def on_done(name: str, rec: Any) -> None:
                if rec.error is not None or name.startswith("net."):
                    return
                for ri, R in enumerate(rounds):
                    if name in R["pending"]:
                        R["pending"].discard(name)
                        if not R["pending"]:
                            w = pickle.loads(pickle.dumps(R["writer"]))

                            def fin(R=R, w=w):
                                R["fin"] = w.finalise([R["receipts"][p] for p in sorted(R["receipts"])])
                                return True

                            kernel.spawn(f"W9.F{ri}", fin)
                    if name == f"W9.F{ri}" and ri == 0:
                        state["second_started"] = True
                        start_round(1)

            start_round(0)
            res: Dict[str, Any] = {}
            v = _drive(kernel, ch, log, res, on_done=on_done)
            if v is None:
                for ri, R in enumerate(rounds):
                    calls = s3.calls[R["first_call"] : (rounds[ri + 1]["first_call"] if ri + 1 < len(rounds) else None)]
                    creates = [c for c in s3.calls if c[0] == "create"]
                    mine = [c for c in calls if c[0] == "create"]
                    if len(mine) != 1:
                        v = Violation(PROP, "O18.1", "upload-initiated-%s-times" % ("zero" if not mine else "more-than-once"), {"round": ri, "creates": [list(map(str, c)) for c in creates]})
                        break
                    uid = mine[0][4]
                    wrong = [c for c in calls if c[0] in ("part", "complete") and c[3] != uid]
                    if wrong:
                        v = Violation(PROP, "O18.2", "part-under-other-upload-id", {"round": ri, "upload": uid, "wrong": [list(map(str, c)) for c in wrong[:4]]})
                        break
                    want = b"".join(R["sent"][p] for p in sorted(R["sent"]))
                    stored = s3.uploads[uid]["parts"]
                    if b"".join(bytes(stored[p]) for p in sorted(stored)) != want or not isinstance(R["fin"], dict):
                        v = Violation(PROP, "O18.5", "object-differs-from-parts", {"round": ri})
                        break
                if v is None and len(rounds) != 2:
                    raise HarnessError("re-upload scenario: the second upload never started")
        except HarnessError:
            raise
        except Exception as e:  # pylint: disable=broad-except
            v = exc_to_violation(PROP, "O18.3", e, extra={"phase": "setup"})
    finally:
        kernel.shutdown()
        K.activate(None)
        fakes.uninstall_distributed_fakes()
        fakes.uninstall_fake_s3()
        getattr(S, "_state", {}).clear()
    if state["late_delivery"]:
        probes["delete_delivered_during_second_upload"] = 1
        if v is not None:
            # the earlier upload's delete landed while the later upload was under way: not an interleaving of the
            # workers of one upload - counted, not reported (DESIGN 7.3, round 7)
            probes["stale_delete_disturbed_second_upload"] = 1
            v = None
    probes["var_get_timeout"] = cluster.counters["var_get_timeout"]
    ch.count("preemption", kernel.switches)
    ch.count("timeout_fired", cluster.counters["var_get_timeout"])
    ch.count("message_delay", int(state["late_delivery"]))
    for c in s3.calls:
        log.add(*c)
    for e in cluster.events:
        log.add(*e[:3])
    conflict = tuple(s3.calls) + tuple((e[0], e[1], e[2]) for e in cluster.events)
    cls = ("reupload", str(wl), cfg.get("delete_in_flight"), conflict)
    sample = {"config": cfg, "workload": wl, "s3_calls": [list(map(str, c)) for c in s3.calls[:30]], "cluster_events": [list(map(str, e)) for e in cluster.events[:40]], "context_switches": kernel.switches, "steps": kernel.steps, "virtual_time": kernel.now}
    return Outcome(v, log.hex(), ch, stats={"probes": probes}, cls=cls, nontrivial=kernel.switches > 0, sample=sample, steps=kernel.steps, sim_time=kernel.now)


def _rle_head(ch: Chooser) -> List[Any]:
    from .core import compress_schedule

    return compress_schedule(ch.schedule_out)[:40]


def _check_s3(s3: fakes.FakeS3, cluster, bucket_of, real_key, keys, sent, receipts, fin_results, real_bucket=None) -> Optional[Violation]:
    for key in keys:
        bkt, rk = bucket_of[key], real_key[key]
        creates = [c for c in s3.calls if c[0] == "create" and c[2] == bkt and c[3] == rk]
        if len(creates) != 1:
            return Violation(PROP, "O18.1", "upload-initiated-%s-times" % ("zero" if not creates else "more-than-once"), {"key": key, "creates": [list(map(str, c)) for c in creates]})
        uid = creates[0][4]
        mine = {u for u, st in s3.uploads.items() if (st["bucket"], st["key"]) == (bkt, rk)}
        part_calls = [c for c in s3.calls if c[0] == "part" and c[2] == rk and (c[3] in mine or c[3] not in s3.uploads)]
        wrong = [c for c in part_calls if c[3] != uid]
        if wrong:
            return Violation(PROP, "O18.2", "part-under-other-upload-id", {"key": key, "upload": uid, "wrong": [list(map(str, c)) for c in wrong[:5]]})
        completes = [c for c in s3.calls if c[0] == "complete" and c[2] == rk and c[3] in mine]
        if len(completes) != 1 or completes[0][3] != uid:
            return Violation(PROP, "O18.2", "complete-missing-or-other-upload-id", {"key": key, "completes": [list(map(str, c)) for c in completes]})
        stored = s3.uploads[uid]["parts"]
        if {p: bytes(d) for p, d in stored.items()} != sent[key]:
            return Violation(PROP, "O18.2", "stored-parts-differ-from-sent", {"key": key, "stored": sorted(stored), "sent": sorted(sent[key])})
        want = b"".join(sent[key][p] for p in sorted(sent[key]))
        if s3.objects.get((bkt, rk)) != want:
            return Violation(PROP, "O18.5", "object-differs-from-parts", {"key": key})
        fr = fin_results.get(key)
        if not isinstance(fr, dict) or fr.get("Key") != rk or fr.get("Bucket") != (real_bucket or bucket_of)[key]:
            return Violation(PROP, "O18.5", "finalise-result", {"key": key, "result": repr(fr)[:200]})
    return None


# ------------------------------------------------------------------ file sink
def _mk_dirs(cfg: dict) -> Tuple[Path, Path, Optional[Any], List[Path], Optional[str]]:
    _SEQ[0] += 1
    root = Path(tempfile.mkdtemp(prefix=f"odcsim-c18-{os.getpid()}-", dir="/dev/shm"))
    cleanup = [root]
    dst = root / "out" / cfg.get("dst_name", "final.bin")
    dst.parent.mkdir()
    if cfg.get("dst_exists"):
        dst.write_bytes(b"stale content of an earlier run " * 3)
    place = cfg.get("place", "default")
    pb: Optional[Any] = None
    cwd = None
    if place == "base-exists":
        pb = root / "pb"
        pb.mkdir()
    elif place == "base-nested":
        pb = root / "a" / "b" / "c"
    elif place == "base-relative":
        pb = Path("relparts") / "x"
        cwd = str(root)
    elif place == "xdev":
        pb = Path(tempfile.mkdtemp(prefix=f"odcsim-c18-{os.getpid()}-", dir="/tmp"))
        cleanup.append(pb)
    return root, dst, pb, cleanup, cwd


def _exec_sink(record: dict, ch: Chooser, log: Digest) -> Outcome:
    # pylint: disable=too-many-locals,too-many-branches,too-many-statements
    from odc.geo.cog._mpu_fs import MPUFileSink

    cfg, wl = record["config"], record["workload"]
    probes = {"mkdir_lost_race": 0, "sink_cross_device": int(cfg.get("place") == "xdev"), "sink_empty_nonfirst_part": 0, "sink_pickled_copy": 0, "scenario_sink": 1, "sink_keep_parts": int(bool(cfg.get("keep_parts"))), "sink_unusual_destination_name": int(cfg.get("dst_name", "final.bin") != "final.bin"), "sink_destination_exists": int(bool(cfg.get("dst_exists"))), "sink_part_number_zero_or_5_digits": int(int(wl.get("part_base", 0)) in (-1, 12340))}
    sizes = {int(k): v_ for k, v_ in wl["sizes"].items()}
    pbase = int(wl.get("part_base", 0))
    root, dst, pb, cleanup, cwd = _mk_dirs(cfg)
    kernel = K.Kernel(trace_files=_trace_files())
    K.activate(kernel)
    old_cwd = os.getcwd()
    v: Optional[Violation] = None
    receipts: Dict[int, Any] = {}
    sent: Dict[int, bytes] = {}
    T = len(wl["threads"])
    mkdir_calls: List[Tuple[str, bool]] = []
    orig_mkdir = Path.mkdir

    def spy_mkdir(self, *a, **kw):
        try:
            r = orig_mkdir(self, *a, **kw)
            mkdir_calls.append((self.name, True))
            return r
        except FileExistsError:
            mkdir_calls.append((self.name, False))
            raise

    try:
        if cwd:
            os.chdir(cwd)
        Path.mkdir = spy_mkdir  # type: ignore
        try:
            limits = cfg.get("limits", {})
            sink = MPUFileSink(str(dst) if cfg.get("dst_as_str") else dst, pb, **limits)
            v = _check_limits("MPUFileSink", sink, limits, {"min_write_sz": 4096, "max_write_sz": 5 * (1 << 30), "min_part": 1, "max_part": 10_000})
            copies = []
            for t in range(T):
                if wl["shared"][t]:
                    copies.append(sink)
                else:
                    copies.append(pickle.loads(pickle.dumps(sink)))
                    probes["sink_pickled_copy"] = 1
            if v is None:
                for t, parts in enumerate(wl["threads"]):

                    def body(t=t, parts=parts):
                        for p in parts:
                            data = _data(p, sizes[p])
                            sent[p] = data
                            receipts[p] = copies[t](p + pbase, data)
                        return True

                    kernel.spawn(f"T{t}", body)
                res: Dict[str, Any] = {}
                v = _drive(kernel, ch, log, res)
            if v is None:
                for p, r in sorted(receipts.items()):
                    if not isinstance(r, dict) or r.get("PartNumber") != p + pbase:
                        v = Violation(PROP, "O18.6", "receipt-part-number", {"part": p, "receipt": repr(r)[:200]})
                        break
            if v is None:
                order = [p for p in wl["final_order"] if p in receipts]
                fin = wl.get("finaliser", "orig")
                fsink = sink if fin == "orig" else copies[int(fin) % T]
                kp = cfg.get("keep_parts")
                if any(sizes[p] == 0 for p in order[1:]):
                    probes["sink_empty_nonfirst_part"] = 1
                out: Dict[str, Any] = {}

                def fin_body():
                    parts = [receipts[p] for p in order]
                    out["r"] = fsink.finalise(parts) if kp is None else fsink.finalise(parts, keep_parts=kp)
                    return True

                kernel.spawn("F", fin_body)
                v = _drive(kernel, ch, log, {})
                if v is None:
                    v = _check_sink(dst, out.get("r"), order, sent, receipts, bool(kp), sink)
        except HarnessError:
            raise
        except Exception as e:  # pylint: disable=broad-except
            v = exc_to_violation(PROP, "O18.3", e, extra={"phase": "sink-setup"})
    finally:
        Path.mkdir = orig_mkdir  # type: ignore
        kernel.shutdown()
        K.activate(None)
        os.chdir(old_cwd)
        for d in cleanup:
            shutil.rmtree(d, ignore_errors=True)
    probes["mkdir_lost_race"] = int(any(not ok for _, ok in mkdir_calls))
    ch.count("preemption", kernel.switches)
    ch.count("writer_copy", sum(1 for x in wl["shared"] if not x))
    log.add("sink", sorted(receipts), [ok for _, ok in mkdir_calls])
    cls = ("sink", str(wl), str(cfg.get("limits")), cfg.get("place"), cfg.get("keep_parts"), tuple(mkdir_calls), kernel.switches > 0, tuple(ch.schedule_out[:400]))
    sample = {"config": cfg, "workload": wl, "mkdir_calls": mkdir_calls, "schedule_rle_head": _rle_head(ch), "context_switches": kernel.switches, "steps": kernel.steps}
    return Outcome(v, log.hex(), ch, stats={"probes": probes}, cls=cls, nontrivial=(T >= 2 and kernel.switches > 0) or len(receipts) > 1, sample=sample, steps=kernel.steps)


def _check_sink(dst: Path, ret: Any, order: List[int], sent, receipts, keep: bool, sink) -> Optional[Violation]:
    want = b"".join(sent[p] for p in order)
    if not dst.exists():
        return Violation(PROP, "O18.6", "destination-missing", {})
    got = dst.read_bytes()
    if got != want:
        n = next((i for i, (a, b) in enumerate(zip(got, want)) if a != b), min(len(got), len(want)))
        return Violation(PROP, "O18.6", "destination-content-differs", {"first_diff": n, "got_len": len(got), "want_len": len(want), "order": order})
    if ret is None or Path(ret) != dst:
        return Violation(PROP, "O18.6", "finalise-return-value", {"ret": repr(ret), "dst": str(dst.name)})
    if not keep:
        left = [p for p, r in receipts.items() if Path(r["Path"]).exists()]
        if left:
            return Violation(PROP, "O18.6", "part-files-left-behind", {"parts": left})
        pdir = Path(receipts[order[0]]["Path"]).parent
        if pdir.exists():
            return Violation(PROP, "O18.6", "parts-directory-left-behind", {"entries": sorted(os.listdir(pdir))[:10]})
    return None


# ------------------------------------------------------------------ limits
def _check_limits(kind: str, w: Any, configured: Dict[str, int], defaults: Dict[str, int]) -> Optional[Violation]:
    rep = {}
    for k in ("min_write_sz", "max_write_sz", "min_part", "max_part"):
        rep[k] = getattr(w, k)
        want = configured.get(k, defaults[k])
        if rep[k] != want:
            return Violation(PROP, "O18.7", f"{kind}-reports-wrong-{k}", {"configured": configured, "reported": rep[k], "want": want})
    eff = {k: configured.get(k, defaults[k]) for k in defaults}
    if eff["max_write_sz"] > eff["min_write_sz"] and not rep["max_write_sz"] > rep["min_write_sz"]:
        return Violation(PROP, "O18.7", f"{kind}-max_write_sz-not-above-min", {"reported": rep})
    if eff["max_part"] > eff["min_part"] and not rep["max_part"] > rep["min_part"]:
        return Violation(PROP, "O18.7", f"{kind}-max_part-not-above-min", {"reported": rep})
    return None


def _exec_limits(record: dict, ch: Chooser, log: Digest) -> Outcome:
    from odc.geo.cog import _s3 as S
    from odc.geo.cog._mpu_fs import MPUFileSink

    cfg = record["config"]
    root, dst, pb, cleanup, _ = _mk_dirs(cfg)
    v: Optional[Violation] = None
    s3_defaults = {"min_write_sz": 5 * (1 << 20), "max_write_sz": 5 * (1 << 30), "min_part": 1, "max_part": 10_000}
    try:
        try:
            sink = MPUFileSink(dst, pb, **cfg["limits"])
            v = _check_limits("MPUFileSink", sink, cfg["limits"], {"min_write_sz": 4096, "max_write_sz": 5 * (1 << 30), "min_part": 1, "max_part": 10_000})
            if v is None:
                v = _check_limits("MPUFileSink-pickled", pickle.loads(pickle.dumps(sink)), cfg["limits"], {"min_write_sz": 4096, "max_write_sz": 5 * (1 << 30), "min_part": 1, "max_part": 10_000})
            mpu = S.MultiPartUpload("b", "k")
            if v is None:
                v = _check_limits("MultiPartUpload", mpu, {}, s3_defaults)
            if v is None:
                v = _check_limits("DelayedS3Writer", S.DelayedS3Writer(mpu, {}), {}, s3_defaults)
        except HarnessError:
            raise
        except Exception as e:  # pylint: disable=broad-except
            v = exc_to_violation(PROP, "O18.3", e, extra={"phase": "limits"})
    finally:
        for d in cleanup:
            shutil.rmtree(d, ignore_errors=True)
    log.add("limits", sorted(cfg["limits"].items()))
    return Outcome(v, log.hex(), ch, stats={"probes": {"scenario_limits": 1}}, cls=("limits", str(cfg["limits"])), nontrivial=bool(cfg["limits"]), sample={"config": cfg}, steps=1)


# --------------------------------------------------------------------------------------
# shrinking
# --------------------------------------------------------------------------------------
def candidates(record: dict) -> Iterable[dict]:
    # pylint: disable=too-many-branches
    cfg, wl = record["config"], record["workload"]
    scen = cfg["scenario"]
    if cfg.get("policy") is not None:
        c = copy.deepcopy(record)
        c["config"]["policy"] = None
        yield c
    if scen in ("inproc", "cluster", "sink"):
        threads = wl["threads"]
        # drop a thread
        if len(threads) > 1:
            for t in range(len(threads)):
                c = copy.deepcopy(record)
                gone = c["workload"]["threads"].pop(t)
                gp = gone["parts"] if isinstance(gone, dict) else gone
                for p in gp:
                    c["workload"]["sizes"].pop(str(p), None)
                if scen == "sink":
                    c["workload"]["shared"].pop(t)
                    c["workload"]["final_order"] = [p for p in c["workload"]["final_order"] if p not in gp]
                    if not c["workload"]["final_order"]:
                        continue
                if isinstance(c["workload"].get("finaliser"), int):
                    c["workload"]["finaliser"] = 0
                c["schedule"] = []
                yield c
        # drop a part
        for t, spec in enumerate(threads):
            parts = spec["parts"] if isinstance(spec, dict) else spec
            if len(parts) > 1 or (scen == "sink" and sum(len(s["parts"] if isinstance(s, dict) else s) for s in threads) > 1):
                for j, p in enumerate(parts):
                    c = copy.deepcopy(record)
                    sp = c["workload"]["threads"][t]
                    (sp["parts"] if isinstance(sp, dict) else sp).pop(j)
                    c["workload"]["sizes"].pop(str(p), None)
                    if scen == "sink":
                        c["workload"]["final_order"] = [q for q in c["workload"]["final_order"] if q != p]
                        if not c["workload"]["final_order"]:
                            continue
                    yield c
        # smaller sizes
        for p, sz in wl["sizes"].items():
            for nsz in sorted({0, 1, 5, sz // 2} if scen == "sink" else {5}):
                if nsz < sz:
                    c = copy.deepcopy(record)
                    c["workload"]["sizes"][p] = nsz
                    yield c
    if wl.get("part_base"):
        c = copy.deepcopy(record)
        c["workload"]["part_base"] = 0
        yield c
    for k, simple in (("overlap_lifecycles", False), ("second_variant", "other-key"), ("dst_name", "final.bin"), ("dst_exists", False), ("second_object", False), ("copy_per_task", False), ("prepped", True), ("keep_parts", None), ("place", "default"), ("limits", {}), ("dst_as_str", False), ("kw", {})):
        if k in cfg and cfg[k] != simple:
            c = copy.deepcopy(record)
            c["config"][k] = simple
            yield c
    if scen == "sink":
        if wl["final_order"] != sorted(wl["final_order"]):
            c = copy.deepcopy(record)
            c["workload"]["final_order"] = sorted(wl["final_order"])
            yield c
        if not all(wl["shared"]):
            c = copy.deepcopy(record)
            c["workload"]["shared"] = [True] * len(wl["shared"])
            yield c
        for k in list(cfg.get("limits", {})):
            c = copy.deepcopy(record)
            del c["config"]["limits"][k]
            yield c
    if wl.get("finaliser") not in (None, "fresh", "orig"):
        c = copy.deepcopy(record)
        c["workload"]["finaliser"] = "fresh" if scen != "sink" else "orig"
        yield c
