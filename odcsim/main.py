"""Command line entry: ./check <property> quick|thorough | --replay <file> | selftest-*"""

from __future__ import annotations

import os
import sys
import time
import warnings

warnings.filterwarnings("ignore")

sys.path.insert(0, os.path.dirname(os.path.dirname(os.path.abspath(__file__))))
if os.environ.get("ODCSIM_REPO"):
    # sensitivity runs: import a scratch copy of the repository instead of /repo (never used by registered commands)
    sys.path.insert(0, os.environ["ODCSIM_REPO"])

from odcsim import core  # noqa: E402  pylint: disable=wrong-import-position

# (n_runs, wall cap seconds, shrink budget) per property and tier.  Run counts are fixed so
# that one VERIF_SEED always explores the same runs; the wall cap only guards slow machines
# (runs not executed are reported in the evidence file).
BUDGET = {
    "C06": {"quick": (190_000, 80, 500), "thorough": (4_000_000, 900, 5000)},
    "C13": {"quick": (1_100, 85, 300), "thorough": (40_000, 900, 2000)},
    "C18": {"quick": (13_000, 80, 500), "thorough": (400_000, 900, 5000)},
    "C05": {"quick": (1_700, 90, 150), "thorough": (24_000, 1200, 1000)},
    "C19": {"quick": (2_600, 90, 300), "thorough": (40_000, 1200, 2000)},
}


def main(argv: list[str]) -> int:
    if "--replay" in argv:
        from odcsim import bootstrap

        bootstrap.boot()
        return core.replay_file(argv[argv.index("--replay") + 1])
    if argv and argv[0] == "setup":
        from odcsim import bootstrap

        bootstrap.boot()
        import dask, distributed, numpy, odc.geo, pyproj, rasterio, tifffile, xarray  # noqa

        import subprocess

        try:  # assertions about the machinery itself: fatal (a broken simulator decides nothing)
            r = subprocess.run([sys.executable, os.path.abspath(__file__), "selftest-unit"], capture_output=True, text=True, timeout=180)
            print((r.stdout.strip().splitlines() or ["selftest-unit: no output"])[-1])
            if r.returncode != 0:
                print(r.stdout[-1500:], r.stderr[-1500:])
                return 2
        except subprocess.TimeoutExpired:
            print("selftest-unit: timed out")
            return 2
        try:  # fake-vs-real distributed conformance: reported, never fatal
            r = subprocess.run([sys.executable, os.path.abspath(__file__), "selftest-conformance"], capture_output=True, text=True, timeout=180)
            print((r.stdout.strip().splitlines() or ["selftest-conformance: no output"])[-1])
        except Exception as e:  # pylint: disable=broad-except
            print(f"selftest-conformance: skipped ({type(e).__name__})")
        try:  # scheduler stub vs dask's own schedulers, small sample: reported, never fatal
            r = subprocess.run([sys.executable, os.path.abspath(__file__), "selftest-daskconf", "0.1"], capture_output=True, text=True, timeout=240)
            print((r.stdout.strip().splitlines() or ["selftest-daskconf: no output"])[-1])
        except Exception as e:  # pylint: disable=broad-except
            print(f"selftest-daskconf: skipped ({type(e).__name__})")
        print("setup ok:", "odc.geo at", os.path.dirname(odc.geo.__file__), "dask", dask.__version__, "distributed", distributed.__version__, "numpy", numpy.__version__, "xarray", xarray.__version__, "rasterio", rasterio.__version__, "tifffile", tifffile.__version__, "pyproj", pyproj.__version__)
        return 0
    if argv and argv[0] == "c19-peer":
        from odcsim import c19

        return c19.peer_main()
    if argv and argv[0].startswith("selftest"):
        from odcsim import selftest

        return selftest.main(argv)
    if len(argv) < 1:
        print(__doc__)
        return 2
    prop = argv[0]
    tier = argv[1] if len(argv) > 1 else os.environ.get("VERIF_TIER", "quick")
    if tier not in ("quick", "thorough"):
        tier = "quick"
    base_seed = int(os.environ.get("VERIF_SEED", "20260926"))
    nproc = int(os.environ.get("VERIF_NPROC", str(min(16, os.cpu_count() or 1))))
    n_runs, cap, shrink_budget = BUDGET[prop][tier]
    if "VERIF_RUNS" in os.environ:
        n_runs = int(os.environ["VERIF_RUNS"])
    if "VERIF_WALL" in os.environ:
        cap = float(os.environ["VERIF_WALL"])
    try:
        from odcsim import bootstrap

        bootstrap.boot()
        import odc.geo

        print(f"[{prop}] code under test: {os.path.dirname(odc.geo.__file__)}")
        engine = core.load_engine(prop)
        merged = core.run_batch(prop, tier, base_seed, n_runs, cap, nproc)
        extra = engine.extra_coverage(tier) if hasattr(engine, "extra_coverage") else None
        return core.finish(prop, tier, base_seed, merged, engine, shrink_budget, extra_cov=extra)
    except core.HarnessError as e:
        print(f"HARNESS-ERROR {e}", file=sys.stderr)
        return core.EXIT_HARNESS


if __name__ == "__main__":
    t0 = time.time()
    rc = main(sys.argv[1:])
    sys.stdout.flush()
    sys.exit(rc)
