"""Deterministic simulation with fault injection for odc-geo (see /verif/DESIGN.md)."""
