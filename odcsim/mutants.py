"""Sensitivity self-test: apply each catalogued patch (and every kept seeded change under
/verif/seeded/<id>/patch.diff) to a scratch copy of /repo under /dev/shm, run the quick check
of its property against that copy (ODCSIM_REPO), and compare with the expectation:
breaking patches must be reported (exit 1 + VIOLATION), benign ones must not (exit 0).
Never part of a verdict; /repo itself is not touched."""

from __future__ import annotations

import json
import os
import shutil
import subprocess
import sys
import time
from pathlib import Path
from typing import List, Optional, Tuple

VERIF = Path(__file__).resolve().parent.parent
REPO = Path("/repo")
RUNS = {"C06": 60000, "C13": 1600, "C18": 12000, "C05": 900, "C19": 1500}


def _scratch(mid: str) -> Path:
    d = Path(f"/dev/shm/odcsim-mut-{mid}")
    shutil.rmtree(d, ignore_errors=True)
    d.mkdir(parents=True)
    shutil.copytree(REPO / "odc", d / "odc", ignore=shutil.ignore_patterns("__pycache__"))
    return d


def _run_check(prop: str, d: Path, runs: Optional[int], seed: Optional[str]) -> Tuple[int, List[str], float]:
    env = dict(os.environ)
    env.update(ODCSIM_REPO=str(d), ODCSIM_EVIDENCE_DIR=str(d / "evidence"), ODCSIM_REPLAY_DIR=str(d / "replays"), VERIF_RUNS=str(runs or RUNS[prop]))
    if seed is not None:
        env["VERIF_SEED"] = seed
    t0 = time.time()
    r = subprocess.run([str(VERIF / "check"), prop, "quick"], env=env, capture_output=True, text=True, timeout=1800)
    lines = [l for l in r.stdout.splitlines() if l.startswith("VIOLATION") or l.startswith("[") or l.startswith("KNOWN")]
    viol = []
    for l in r.stdout.splitlines():
        if l.startswith("{") and '"oracle"' in l:
            try:
                v = json.loads(l)
                viol.append(f"{v['oracle']} {v['sig']}")
            except Exception:  # pylint: disable=broad-except
                pass
    if r.returncode not in (0, 1):
        lines.append("STDERR: " + r.stderr[-600:])
    return r.returncode, viol or lines[-2:], time.time() - t0


def main(argv: List[str]) -> int:
    sys.path.insert(0, str(VERIF / "mutants"))
    from catalogue import CATALOGUE  # type: ignore

    only = [a for a in argv if not a.startswith("-")]
    seed = os.environ.get("VERIF_SEED")
    rows = []
    bad = 0
    jobs = []
    for mid, prop, expect, file, old, new, what in CATALOGUE:
        if file.endswith(".diff"):  # a patch file under /verif (edits at more than one site)
            jobs.append((mid, prop, expect, ("patch", str(VERIF / file)), what))
            continue
        jobs.append((mid, prop, expect, ("replace", file, old, new), what))
    sd = VERIF / "seeded"
    if sd.exists():
        for d in sorted(sd.iterdir()):
            meta = d / "meta.json"
            if meta.exists() and (d / "patch.diff").exists():
                m = json.loads(meta.read_text())
                if m.get("expect") == "obsolete":
                    continue  # kept for the record; see its meta.json
                jobs.append((d.name, m["property"], m.get("expect", "break"), ("patch", str(d / "patch.diff")), m.get("what", "")))
    for mid, prop, expect, how, what in jobs:
        if only and mid not in only and prop not in only:
            continue
        d = _scratch(mid)
        try:
            if how[0] == "replace":
                f = d / how[1]
                s = f.read_text()
                if how[2] not in s:
                    rows.append((mid, prop, expect, "NOT-APPLICABLE (old text missing)", "", 0.0))
                    print(f"{mid:22s} {prop} expect={expect:6s} NOT-APPLICABLE (old text missing)  <-- UNEXPECTED", flush=True)
                    bad += 1
                    continue
                f.write_text(s.replace(how[2], how[3], 1))
            else:
                r = subprocess.run(["patch", "-p1", "-s", "-i", how[1]], cwd=d, capture_output=True, text=True)
                if r.returncode != 0:
                    rows.append((mid, prop, expect, "PATCH-FAILED " + (r.stdout + r.stderr)[-200:], "", 0.0))
                    print(f"{mid:22s} {prop} expect={expect:6s} PATCH-FAILED  <-- UNEXPECTED", flush=True)
                    bad += 1
                    continue
            rc, viol, wall = _run_check(prop, d, None, seed)
            got = {0: "not reported", 1: "REPORTED"}.get(rc, f"harness rc={rc}")
            ok = (expect == "break" and rc == 1) or (expect == "benign" and rc == 0)
            if not ok:
                bad += 1
            rows.append((mid, prop, expect, got + ("" if ok else "  <-- UNEXPECTED"), "; ".join(viol)[:160], wall))
            print(f"{mid:22s} {prop} expect={expect:6s} {rows[-1][3]:28s} {wall:5.0f}s  {rows[-1][4]}", flush=True)
        finally:
            shutil.rmtree(d, ignore_errors=True)
    print(f"selftest-mutants: {len(rows)} patches, {bad} unexpected")
    out = VERIF / "mutants" / "last_run.json"
    out.write_text(json.dumps([dict(zip(("id", "property", "expect", "result", "violations", "wall_s"), r)) for r in rows], indent=1))
    return 0 if not bad else 2
