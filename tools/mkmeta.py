#!/venv/bin/python
"""mkmeta.py <seeded-id> <property> <what> <needs>  -- write /verif/seeded/<id>/meta.json"""
import json, sys
from pathlib import Path
sid, prop, what, needs = sys.argv[1:5]
d = Path("/verif/seeded") / sid
ver = (d / "verified.txt").read_text().strip() if (d / "verified.txt").exists() else ""
meta = {
    "id": sid, "property": prop, "expect": "break", "what": what, "needs_to_manifest": needs,
    "origin": "independent sub-agent given only the property text and its own scratch worktree (nothing from /verif)",
    "confirmed": ver,
    "ran": [f"tools/verify_seeded.sh <agent worktree> {sid} {prop}  (fresh scratch worktree: demo.py passes on HEAD, fails with patch.diff; pinned suite unchanged)",
            f"./check selftest-mutants {sid}  (quick check of {prop} against a scratch copy of /repo with patch.diff applied)"],
}
(d / "meta.json").write_text(json.dumps(meta, indent=1))
print("wrote", d / "meta.json")
