#!/venv/bin/python
"""Re-execute single run indices of a check:  tools/run_index.py <prop> <tier> <base_seed> <index> [<index> ...]

Prints the violation (if any) of each index; with ODCSIM_SHRINK=<n> the record is minimised
and written as a replay file exactly as the check itself would do.  Debugging aid, not a check.
"""
import json
import os
import random
import sys

sys.path.insert(0, os.path.dirname(os.path.dirname(os.path.abspath(__file__))))
if os.environ.get("ODCSIM_REPO"):
    sys.path.insert(0, os.environ["ODCSIM_REPO"])
from odcsim import bootstrap, core  # noqa: E402


def main(argv):
    prop, tier, base = argv[0], argv[1], int(argv[2])
    bootstrap.boot()
    engine = core.load_engine(prop)
    if hasattr(engine, "parent_init"):
        engine.parent_init(tier, {})
    if hasattr(engine, "worker_init"):
        engine.worker_init(tier, {})
    findings = core.load_known_findings()
    for i in map(int, argv[3:]):
        seed = core.run_seed(base, prop, i)
        rec = engine.generate(random.Random(seed), tier)
        out = core.execute_generate(engine, rec, seed)
        if out.violation is None:
            print(i, seed, "clean", out.digest)
            continue
        vd = out.violation.as_dict()
        k = core.match_known(prop, vd, findings)
        print(i, seed, "KNOWN " + k["id"] if k else "VIOLATION", json.dumps(vd, default=repr)[:3000])
        if os.environ.get("ODCSIM_SHOW"):
            print(json.dumps(core.with_schedule(rec, out), default=repr)[:20000])
        n = int(os.environ.get("ODCSIM_SHRINK", "0"))
        if n and not k:
            full = core.with_schedule(rec, out)
            small, used = core.shrink(engine, full, out.key(), n)
            out1 = core.execute_replay(engine, small)
            if out1.key() != out.key():
                small, out1 = full, core.execute_replay(engine, full)
            p = core.write_replay(prop, {"seed": seed, "index": i, "record": full, "digest": out.digest}, small, out1, used)
            print("replay written:", p)
            print(json.dumps(small, default=repr)[:6000])


if __name__ == "__main__":
    main(sys.argv[1:])
