#!/bin/bash
# verify_seeded.sh <agent-worktree> <seeded-id> <property>
# Independent confirmation of a sub-agent's change in a fresh scratch worktree:
#   demo passes on HEAD, fails with the patch; the pinned test suite still passes with the patch.
set -u
WT="$1"; ID="$2"; PROP="$3"; SUB="${4:-MUTANT}"
OUT=/verif/seeded/$ID
mkdir -p "$OUT"
cp "$WT/$SUB/patch.diff" "$OUT/patch.diff" || exit 2
cp "$WT/$SUB/demo.py" "$OUT/demo.py" || exit 2
cp "$WT/$SUB/notes.md" "$OUT/notes.md" 2>/dev/null
S=/tmp/vs-$ID
git -C /repo worktree remove --force "$S" 2>/dev/null
git -C /repo worktree add -q --detach "$S" HEAD || exit 2
cd "$S"
PYTHONPATH=$S timeout 300 /venv/bin/python "$OUT/demo.py" > "$OUT/demo_without.log" 2>&1; RC0=$?
git apply "$OUT/patch.diff" || { echo "patch does not apply"; git -C /repo worktree remove --force "$S"; exit 2; }
PYTHONPATH=$S timeout 300 /venv/bin/python "$OUT/demo.py" > "$OUT/demo_with.log" 2>&1; RC1=$?
BASELINE_DIR=$S /verif/tools/baseline_check.py > "$OUT/suite_with.log" 2>&1; RCS=$?
cd /
git -C /repo worktree remove --force "$S"
echo "demo without change: rc=$RC0   with change: rc=$RC1   pinned suite with change: rc=$RCS ($(tail -1 $OUT/suite_with.log))"
cat > "$OUT/verified.txt" <<EOT
confirmed in scratch worktree $S at $(git -C /repo rev-parse --short HEAD): demo rc without=$RC0 with=$RC1; pinned suite with change rc=$RCS: $(tail -1 $OUT/suite_with.log)
EOT
[ "$RC0" = 0 ] && [ "$RC1" != 0 ] && [ "$RCS" = 0 ]
