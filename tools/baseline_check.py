#!/venv/bin/python
"""Run the repository's pinned test suite (guard off: no odcsim involvement) and compare
with the stable_pass list in /root/.vp/BASELINE.json.  Exit 0 iff every stable test passes."""
import json, os, subprocess, sys, tempfile
import xml.etree.ElementTree as ET

base = json.load(open("/root/.vp/BASELINE.json"))
fd, junit = tempfile.mkstemp(suffix=".xml", dir="/dev/shm")
os.close(fd)
env = {k: v for k, v in os.environ.items() if not k.startswith("ODCSIM") and not k.startswith("VERIF")}
cmd = base["cmd"].replace("<file>", junit)
alt = os.environ.get("BASELINE_DIR")  # run the same suite in a scratch worktree (seeded-change verification)
if alt:
    cmd = cmd.replace("cd /repo", f"cd {alt}")
    env["PYTHONPATH"] = alt
r = subprocess.run(cmd, shell=True, env=env, capture_output=True, text=True)
passed = set()
try:
    for tc in ET.parse(junit).getroot().iter("testcase"):
        if not any(ch.tag in ("failure", "error", "skipped") for ch in tc):
            passed.add(f"{tc.get('classname')}::{tc.get('name')}")
finally:
    os.unlink(junit)
want = set(base["stable_pass"])
missing = sorted(want - passed)
print(r.stdout.strip().splitlines()[-1] if r.stdout.strip() else r.stderr[-500:])
print(f"stable_pass: {len(want)}  passing now: {len(want & passed)}  newly passing: {len(passed - want)}")
for m in missing[:30]:
    print("NOT PASSING:", m)
sys.exit(1 if missing else 0)
