#!/venv/bin/python
"""Regenerate /verif/MANIFEST.json (kept valid at all times)."""
import json, subprocess, sys
from pathlib import Path

V = Path("/verif")
BUILT = [a for a in sys.argv[1:]] or json.loads((V / "tools/built.json").read_text())
(V / "tools/built.json").write_text(json.dumps(BUILT))

NA = {
    "C01": "pure function of (operands, CRS tags): no schedule, clock, I/O, fault or shared state for a simulator to control; the CRS-cache history dependence it touches is decided under C19",
    "C02": "pure affine/shape arithmetic on immutable GeoBox values; nothing to schedule, delay or fail",
    "C03": "compute_reproject_roi is a pure function of two GeoBoxes and keyword options (it only reads the transformer cache, decided under C19)",
    "C04": "tilings and BlockAssembler are pure index arithmetic and array copies quantified over inputs only (BlockAssembler runs as real code inside every C13 run, but C04 itself is not decided)",
    "C07": "to_crs/segmented are pure point-wise maps through pyproj/shapely; quantified over inputs only",
    "C08": "from_bbox/from_geopolygon/snap_grid are pure floating-point arithmetic; the 'configurations' are call arguments, not deployment state",
    "C09": "every step of the quantified histories (slice, arithmetic, astype, pickle, reproject) is a pure function returning a new xarray object with per-object accessor state; such a history is a structured input with no interleaving, clock, I/O or fault",
    "C10": "pure comparison between the planner output and a GDAL warp of in-memory arrays",
    "C11": "compute_output_geobox is a pure function of (GeoBox, CRS, options)",
    "C12": "tile queries and grid_intersect are pure geometry (exercised as real code by the C13 runs, not decided here)",
    "C14": "GridSpec is pure binning arithmetic (geobox_cache is a caller-owned dict outside the statement)",
    "C15": "one synchronous call whose file/memory I/O happens inside GDAL (C library) where no Python-level seam exists to delay, reorder or fail it; the overwrite guard is a two-input truth table; nothing in the statement is quantified over schedules or faults",
    "C16": "pure lattice/grid arithmetic on value objects",
    "C17": "total functions over small integer domains; the fitting tool is exhaustive enumeration (model checking), not this technique family",
    "C20": "pure numeric helpers",
}
CHECKS = {
    "C05": dict(
        engine="DaskSim+ThreadSim",
        technique="deterministic simulation: seeded dask scheduler (order, K workers as baton threads pre-empted at source lines of the sink, tile-compression and multi-part code, rendezvous gating, transport, recompute, fusion) over the real save_cog_with_dask graph with file and fake-S3 sinks; files decoded by GDAL and tifffile",
        text="Seeded exploration of task execution orders, worker interleavings, serialisation boundaries, recomputation and sink placements for randomly drawn images/configurations; every produced file is decoded by two independent readers and its tile layout checked. A clean batch is evidence over the sampled schedules and configurations, not a proof.",
        note="GDAL, tifffile, imagecodecs and the kernel file system run as opaque real code; S3 and distributed are in-process fakes; dask's scheduler is replaced by DaskSim; codecs restricted to (dtype, compression, predictor) triples that pass a start-up encode/decode probe",
        ref="5 (C05), 4.2"),
    "C06": dict(
        engine="ProtocolSim+DaskSim",
        technique="deterministic simulation: seeded scheduler choosing append/merge/collate events (arbitrary bracketing) over the real MPU ops, plus the real mpu_write dask graph under a seeded dask scheduler with transport faults; history check against a byte-stream reference model",
        text="Seeded search over partitionings, merge bracketings, append/merge interleavings, spill/limit configurations and pickle-transport faults, checked against the reference stream header+chunks+footer and the writer-contract oracles O6.1-O6.6. Sampling, not enumeration: a clean batch is evidence, not proof.",
        note="recording PartsWriter stub; dask scheduler replaced by DaskSim in layer B; domain: >=1 chunk per partition, part budget within writer range",
        ref="5 (C06)"),
    "C13": dict(
        engine="DaskSim",
        technique="deterministic simulation: seeded dask scheduler (order, K workers, transport, recompute, fusion) over the real chunked-reprojection graph - single requests and pairs of requests sharing one graph - compared with the in-memory path",
        text="Seeded exploration of chunkings x placements x dtype/nodata x execution orders (with recomputation of pure tasks and serialisation of results); chunked result compared with the in-memory reprojection (exact for same-CRS nearest), fill uniformity and schedule independence checked in all cases. Evidence over sampled runs, not proof.",
        note="GDAL warp is opaque real code; exact ties on inexact grids are masked out (reported); reference footprints computed with pyproj/shapely/numpy directly",
        ref="5 (C13), 6 rule 3"),
    "C18": dict(
        engine="ThreadSim",
        technique="deterministic simulation: baton-passing real threads pre-empted at every source line of _s3.py/_mpu_fs.py under a seeded scheduler, fake S3 + fake distributed Variable/Lock with virtual-time timeouts, real file system",
        text="Seeded search over thread interleavings (line granularity), lock hand-over orders, Variable.get timeouts on a virtual clock, pickled writer copies, part sizes and parts-directory placements; monitors check exactly-one initiation, one upload id, no failed write, progress, sink content/cleanup and reported limits.",
        note="boto3/S3 and distributed Variable/Lock/get_client are fakes carrying the installed signatures (conformance self-test against a real in-process cluster); S3 errors, lock-lease expiry and disk errors are not injected (the statement makes no promise about them)",
        ref="5 (C18), 4.3, 4.4"),
    "C19": dict(
        engine="HistorySim+ThreadSim",
        technique="deterministic simulation of cache histories: seeded sequences of construct/copy/pickle/tokenize/transformer/drop/gc/churn/flood/read-only-use steps, racing constructions (baton threads pre-empted in crs.py and cachetools), an allocator model behind the id() seam (address reuse decided by the seeded chooser) and a peer interpreter with another string-hash seed, in fork-isolated pristine interpreters, with pairwise coherence oracles and pyproj reference transformers",
        text="Seeded search over histories of CRS construction, destruction, garbage collection, address churn and concurrent cache fills; after every step the value-object laws are checked over the live pool and every transformer is compared with one freshly built by pyproj.",
        note="pyproj is the reference for transformer behaviour and for which EPSG definitions are the same CRS; object-address reuse is modelled (virtual addresses under CPython's id() contract), not left to the allocator; two genuine defects are listed as known findings (D19a, D19b) and matched by cause",
        ref="5 (C19)"),
}
PENDING = "check under construction in this session (claimed in DESIGN.md section 1; will move to 'checks' when its engine lands)"

hooks_commits = []
checks = []
na = [{"property_id": k, "reason": v} for k, v in sorted(NA.items())]
for pid, c in sorted(CHECKS.items()):
    if pid not in BUILT:
        na.append({"property_id": pid, "reason": PENDING})
        continue
    checks.append({
        "property_id": pid,
        "quick_cmd": f"./check {pid} quick",
        "thorough_cmd": f"./check {pid} thorough",
        "evidence_file": f"/verif/evidence/{pid}.json",
        "replay_cmd_template": f"./check {pid} --replay {{path}}",
        "engine": c["engine"],
        "level_claimed": {"category": "exploration", "text": c["text"], "design_ref": "DESIGN.md section " + c["ref"]},
        "level_note": c["note"],
        "technique": c["technique"],
    })
na.sort(key=lambda d: d["property_id"])
m = {
    "version": 1,
    "setup_cmd": "./check setup",
    "hooks": {
        "guard": "ODCSIM_HOOKS (unused: no hook commits were needed, every seam is reachable from outside)",
        "enable": "none needed: checks import /repo's working tree through the editable install in /venv and patch seams at run time from /verif/odcsim (dask scheduler=, sys.settrace, threading.Lock factories, distributed.*, MultiPartUpload.s3_client, uuid4, gc)",
        "baseline_off_cmd": "/verif/tools/baseline_check.py",
        "source_commits": hooks_commits,
        "add_only": True,
    },
    "engines": [
        {"name": "ProtocolSim", "path": "odcsim/c06.py", "serves_properties": ["C06"], "kind_free_text": "seeded event scheduler over the real MPU protocol ops"},
        {"name": "DaskSim", "path": "odcsim/dasksim.py", "serves_properties": ["C05", "C06", "C13"], "kind_free_text": "seeded dask scheduler: order, K workers, transport, recompute, stall, rendezvous; compared with dask's own schedulers by selftest-daskconf"},
        {"name": "ThreadSim", "path": "odcsim/kernel.py", "serves_properties": ["C05", "C18", "C19"], "kind_free_text": "baton-passing real threads, sys.settrace pre-emption, cooperative locks, virtual clock"},
        {"name": "HistorySim", "path": "odcsim/c19.py", "serves_properties": ["C19"], "kind_free_text": "seeded cache-history generator in fork-isolated interpreters"},
    ],
    "checks": checks,
    "not_applicable": na,
    "notes": "Technique family: deterministic simulation with fault injection only. One VERIF_SEED fixes every run (run_seed = blake2b(base, property, index)); violations are minimised and written to /verif/replays/<id>/*.json; known findings live in /verif/known_findings.json. See DESIGN.md.",
}
(V / "MANIFEST.json").write_text(json.dumps(m, indent=1))
print("checks:", [c["property_id"] for c in checks])
